#!/usr/bin/env python3
import json, random, sys, math
def enc(v):
    s = 1 if v < 0 else 0; m = abs(v); l = [s]
    while m: l.append(m & 32767); m >>= 15
    return l
def wrap(v, w, s):
    u = v % (1 << w)
    return u - (1 << w) if s and u >> (w - 1) else u
def tdiv(a, b):
    q = abs(a) // abs(b); return -q if (a < 0) != (b < 0) else q
random.seed(int(sys.argv[2]) if len(sys.argv) > 2 else 1)
n = int(sys.argv[1])
for _ in range(n):
    ba = random.choice([0, 1, 7, 14, 15, 16, 29, 30, 31, 32, 45, 63, 64, 65, 127, 128, 200, 300])
    bb = random.choice([0, 1, 7, 14, 15, 16, 29, 30, 31, 32, 45, 63, 64, 65, 127, 128, 200])
    a = random.getrandbits(ba) if ba else 0; b = random.getrandbits(bb) if bb else 0
    if random.random() < .2 and ba: a = (1 << ba) - 1
    if random.random() < .1 and bb: b = (1 << bb) - 1
    if random.random() < .1 and ba: a = 1 << (ba - 1)
    if random.random() < .4: a = -a
    if random.random() < .4: b = -b
    k = random.choice([0, 1, 14, 15, 16, 30, 31, 45, 64, random.randrange(0, 140)])
    w = random.choice([8, 15, 16, 30, 31, 32, 64, 128, 130])
    e = dict(a=enc(a), b=enc(b), k=k, w=w, add=enc(a + b), sub=enc(a - b), mul=enc(a * b),
             cmp=(a > b) - (a < b), shl=enc(a << k), shrf=enc(a >> k),
             shrt=enc(-((-a) >> k) if a < 0 else a >> k), modp=enc(a % (1 << k)), bitlen=abs(a).bit_length(),
             wraps=enc(wrap(a, w, True)), wrapu=enc(wrap(a, w, False)),
             ands=enc(wrap(wrap(a, w, False) & wrap(b, w, False), w, True)),
             oru=enc(wrap(a, w, False) | wrap(b, w, False)),
             xors=enc(wrap(wrap(a, w, False) ^ wrap(b, w, False), w, True)),
             nots=enc(wrap(~a, w, True)), isqrt=enc(math.isqrt(a) if a >= 0 else 0), p10=enc(10 ** (k % 40)))
    if b != 0:
        q = tdiv(a, b); e.update(tdiv=enc(q), trem=enc(a - q * b), fdiv=enc(a // b))
    else:
        e.update(tdiv=[0], trem=[0], fdiv=[0])
    print(json.dumps(e))
