#!/bin/sh
# development helper: run quick checks against a scratch worktree that has a seeded change applied
# usage: tools/mutant_run.sh <worktree> <outdir> <prop>...
wt=$1; out=$2; shift 2
mkdir -p "$out"
for p in "$@"; do
  VERIF_REPO=$wt VERIF_EVIDENCE_DIR=$out/evidence VERIF_REPLAY_DIR=$out/replays timeout 3000 /verif/tools/vcheck $p --tier quick > $out/$p.log 2>&1
  echo "$p rc=$?" >> $out/summary.txt
done
