#!/usr/bin/env python3
"""writes /verif/MANIFEST.json from the check table in families.py (single source of truth)"""
import json, os, subprocess, sys
sys.path.insert(0, os.path.dirname(os.path.abspath(__file__)))
import families

ALL = ["C%02d" % i for i in range(1, 21)]
NA = {}   # property -> reason, for properties deliberately not claimed

def main():
    hooks = subprocess.run(["git", "-C", "/repo", "log", "--format=%H %s"], stdout=subprocess.PIPE, text=True).stdout.splitlines()
    hook_commits = [l.split()[0] for l in hooks if "verif hook" in l]
    checks = []
    for p in ALL:
        if p not in families.CHECKS:
            continue
        c = families.CHECKS[p]
        checks.append(dict(
            property_id=p,
            quick_cmd="tools/vcheck %s --tier quick" % p,
            thorough_cmd="tools/vcheck %s --tier thorough" % p,
            evidence_file="/verif/evidence/%s.json" % p,
            replay_cmd_template="tools/vcheck %s --replay {path}" % p,
            engine="tlc",
            level_claimed=dict(category="model_checking", text=c["level_text"], design_ref=c.get("design_ref", "DESIGN.md section 6")),
            level_note=c["level_note"],
            technique=c["technique"]))
    na = [dict(property_id=p, reason=NA.get(p, "check not built yet in this round (work in progress; see DESIGN.md section 6)"))
          for p in ALL if p not in families.CHECKS]
    m = dict(
        version=1,
        setup_cmd="tools/setup.sh",
        hooks=dict(guard="JOHNMCFARLANE_CNL_VERIF", enable="-DJOHNMCFARLANE_CNL_VERIF (recorders add -DCNL_VERIF_OVERFLOW_PATH_INTRINSIC|PORTABLE to pick the overflow detection path)",
                   baseline_off_cmd="cmake --build /repo/_build -j16 -- -k 0 ; ctest --test-dir /repo/_build -j8 --timeout 900",
                   source_commits=hook_commits, add_only=True),
        engines=[dict(name="tlc", path="/verif/spec", serves_properties=[c["property_id"] for c in checks],
                      kind_free_text="explicit TLA+ specification (BigInt/CxxInt/Sem*/AsCoded* modules); TLC judges NDJSON events recorded from the real templates (trace validation, one state per event) and model-checks the as-coded algorithm models on scaled-down machines")],
        checks=checks,
        not_applicable=na,
        notes="All verdicts are computed by TLC from /verif/spec; the C++ recorders under /verif/harness only drive the real cnl templates and log events. known_findings.json lists genuine defects of the unchanged tree.")
    with open(os.path.join(os.path.dirname(os.path.dirname(os.path.abspath(__file__))), "MANIFEST.json"), "w") as f:
        json.dump(m, f, indent=1)
        f.write("\n")

main()
