"""Families of recorders + judges, design-level model checks, and the per-property check table."""
import collections
import json
import os
import pickle
import re
import shutil
import sys
import time

import vlib
from vlib import log

# ---------------------------------------------------------------------------------------------
# recording + judging a family (cached by content of tree, harness, spec, seed, tier)


def harness_hash():
    return vlib.tree_hash(os.path.join(vlib.VERIF, "harness"))


def family_result(name, tier):
    fam = FAMILIES[name]
    key = vlib.sha(name, tier, vlib.seed(), vlib.include_hash(), harness_hash(), vlib.spec_hash(),
                   open(os.path.abspath(__file__)).read(), open(vlib.__file__).read())
    cdir = os.path.join(vlib.BUILD, "run")
    os.makedirs(cdir, exist_ok=True)
    cpath = os.path.join(cdir, "%s-%s.pkl" % (name, key))
    if os.path.exists(cpath) and time.time() - os.path.getmtime(cpath) < 3 * 3600:
        with open(cpath, "rb") as f:
            log("[%s] reusing judged recording %s" % (name, os.path.basename(cpath)))
            return pickle.load(f)
    t0 = time.time()
    jobs = fam["jobs"](tier)
    exes = vlib.build_many(jobs)
    log("[%s] built %d recorders in %.1fs" % (name, len(jobs), time.time() - t0))
    wdir = os.path.join(cdir, "%s-%s.d" % (name, key))
    shutil.rmtree(wdir, ignore_errors=True)
    os.makedirs(wdir)
    t1 = time.time()
    rjobs = []
    for j in jobs:
        rjobs.append((exes[j["tag"]], os.path.join(wdir, j["tag"] + ".ndjson"), j.get("env")))
    vlib.run_recorders(rjobs, timeout=fam.get("record_timeout", 1200))
    log("[%s] recorded in %.1fs" % (name, time.time() - t1))
    t2 = time.time()
    merged = vlib.merge_streams([out for _, out, _ in rjobs], os.path.join(wdir, name + ".all.ndjson"))
    for _, out, _ in rjobs:
        os.remove(out)
    total = vlib.judge_file(merged, wdir, module=fam.get("judge", "Judge"))
    log("[%s] judged %d events in %.1fs: %s" % (name, total.events, time.time() - t2, dict(total.by_diag)))
    shutil.rmtree(wdir, ignore_errors=True)
    total.wall = time.time() - t0
    total.recorders = [j["tag"] for j in jobs]
    with open(cpath, "wb") as f:
        pickle.dump(total, f)
    return total


# ---------------------------------------------------------------------------------------------
# design-level model checks (phase A): independent of /repo, so a failure is a machinery failure

def mc_result(mc, tier):
    """mc: dict(module, cfg_quick, cfg_thorough, workers, xmx, timeout); returns dict(states, distinct, wall, coverage)"""
    cfg = mc["cfg_thorough"] if tier == "thorough" and mc.get("cfg_thorough") else mc["cfg_quick"]
    module = os.path.join(vlib.SPEC, mc["module"])
    cfgp = os.path.join(vlib.SPEC, cfg)
    key = vlib.sha("mc", vlib.spec_hash(), cfg, mc["module"])
    cdir = os.path.join(vlib.BUILD, "run")
    os.makedirs(cdir, exist_ok=True)
    cpath = os.path.join(cdir, "mc-%s.json" % key)
    if os.path.exists(cpath):
        with open(cpath) as f:
            return json.load(f)
    t0 = time.time()
    rc, out = vlib.run_tlc(cfgp, module, workers=mc.get("workers", vlib.NCPU), xmx=mc.get("xmx", "8g"),
                           timeout=mc.get("timeout", 1500), extra=["-coverage", "1"] if mc.get("coverage") else [],
                           tag="mc")
    if rc != 0:
        raise vlib.MachineryError("design-level model check %s / %s failed (rc=%d):\n%s" % (mc["module"], cfg, rc, out[-4000:]))
    g, d = vlib.tlc_stats(out)
    res = dict(module=mc["module"], cfg=cfg, states=g, distinct=d, wall_s=round(time.time() - t0, 1),
               constants=open(cfgp).read())
    with open(cpath, "w") as f:
        json.dump(res, f)
    return res


# ---------------------------------------------------------------------------------------------
# overflow family (C06, C07; native-tag events belong to C12)

def overflow_jobs(tier):
    jobs = []
    combos = [("gcc", "intrinsic"), ("gcc", "portable"), ("clang", "portable")]
    if tier == "thorough":
        combos.append(("clang", "intrinsic"))
    for cc, path in combos:
        # quick tier: gcc/intrinsic covers every left operand type, gcc/portable a rotating half,
        # clang/portable a rotating third; thorough covers everything
        for lhs in range(10):
            if tier == "quick" and path == "portable" and cc == "gcc" and (lhs + vlib.seed()) % 2:
                continue
            if tier == "quick" and cc == "clang" and (lhs + vlib.seed()) % 3:
                continue
            jobs.append(dict(src="h_overflow.cpp", cc=cc, tag="ovf-%s-%s-%d" % (cc, path, lhs),
                             defines=["LHS_INDEX=%d" % lhs, 'VERIF_PATH="%s"' % path,
                                      "CNL_VERIF_OVERFLOW_PATH_" + path.upper()]))
    return jobs


def overflow_attr(b):
    tag = b["inst"]["tag"] if b.get("inst") else "?"
    if tag == "native":
        return "C12"
    if b["diag"] in ("ub", "unreachable", "timeout"):
        return "C07"
    return "C06"


FAMILIES = {
    "overflow": dict(jobs=overflow_jobs, attr=overflow_attr),
}

MCS = {
    "overflow": dict(module="mc/MC_Overflow.tla", cfg_quick="mc/MC_Overflow_quick.cfg",
                     cfg_thorough="mc/MC_Overflow_thorough.cfg", xmx="8g", timeout=2400),
}

# ---------------------------------------------------------------------------------------------
# per-property checks

CHECKS = {
    "C06": dict(
        families=["overflow"], mcs=["overflow"],
        rule="events = one tagged operation (operate<Op,Tag>, overflow_integer operators, convert<Tag,Dest>) on a pair of "
             "built-in integer types x operand values (8-bit lhs exhaustive x TLC boundary set; wider: TLC boundary set^2 + "
             "seeded random); non-trivial = exact result within 2 of a bound of the result type, or outside it",
        assumptions=["UBSan trap mode observes every UB the sanitizer knows; other UB is not observed",
                     "trapping is observed in-process through the JOHNMCFARLANE_CNL_VERIF abort hook"],
        technique="TLA+ spec (SemOverflow ideal semantics + AsCodedOverflow as-coded model) checked by TLC: trace validation of "
                  "recorded executions of the real templates + exhaustive small-machine model check (MC_Overflow)",
        level_text="TLC evaluates the ideal overflow semantics (exact result vs. range of op_result, reaction per tag) on every "
                   "recorded event of the real tagged operators for all 10x10 built-in type pairs, both detection paths, g++ and "
                   "clang++; rejected events must additionally equal the as-coded model to count as the listed known findings. "
                   "MC_Overflow proves on a scaled-down machine that the as-coded detection has no deviation outside those classes.",
        level_note="bounded: 8-bit operands exhaustive (thorough), wider operands boundary^2 + seeded random; trusted: TLC, the "
                   "BigInt module (self-tested against Python), UBSan trap mode, the recorder's encoding of integers"),
    "C07": dict(
        families=["overflow"], mcs=["overflow"],
        rule="same recorded events as C06; judged for totality: outcome class ub:<signal> / unreachable / timeout is never "
             "allowed under a checked tag; non-trivial = operands at the extremes or result near/outside the range",
        assumptions=["UB is observed through -fsanitize=undefined in trap mode (g++-12 and clang++-14); UB the sanitizer "
                     "has no check for, and reachability in the compiled IR, are not observed"],
        technique="TLA+ spec checked by TLC: CxxInt models every C++ sub-expression of the overflow predicates with an explicit UB "
                  "outcome (MC_Overflow, exhaustive small machine); trace validation of recorded executions (UBSan trap + "
                  "abort/unreachable hook) rejects any ub/unreachable outcome the spec does not allow",
        level_text="every recorded checked operation must end in a value or an overflow signal; outcome classes ub:<signal>, "
                   "unreachable and timeout are rejected by the judge (the spec has no such action). The as-coded model evaluates "
                   "each predicate sub-expression through CxxInt so UB inside the checker is a reachable model outcome; the model "
                   "and the recorded executions agree event by event.",
        level_note="dynamic observation only (no IR-level reachability); UB kinds limited to what -fsanitize=undefined traps; "
                   "bounds as C06"),
}


def run_check(prop, tier, replay, t0):
    chk = CHECKS[prop]
    known = vlib.load_known()
    bads = []
    total = vlib.JudgeResult()
    design = []
    for m in chk.get("mcs", []):
        design.append(mc_result(MCS[m], tier))
    for fname in chk["families"]:
        r = family_result(fname, tier)
        total.merge(r)
        attr = FAMILIES[fname]["attr"]
        for b in r.bad:
            if attr(b) == prop:
                bads.append(b)
    if "extra" in chk:
        chk["extra"](prop, tier, total, bads, design)
    matched, unmatched = vlib.match_known(prop, bads, known)
    for k in known:
        if k.get("status") == "open" and k["property"] == prop and k["id"] in matched:
            print("KNOWN-FINDING: property=%s %s [%d recorded events; e.g. %s]" % (
                prop, k["what"], len(matched[k["id"]]), brief(matched[k["id"]][0])))
    rc = 0
    nviol = 0
    if unmatched:
        # group by (diag, cls) and write one replay per group
        groups = collections.OrderedDict()
        for b in unmatched:
            groups.setdefault((b["diag"], b["ac"], b["cls"]), []).append(b)
        for (diag, ac, cls), bs in groups.items():
            p = vlib.write_replay(prop, bs[:20], dict(diag=diag, ac=ac, cls=cls, count=len(bs), tier=tier, seed=vlib.seed()))
            print("VIOLATION property=%s replay=%s" % (prop, p))
            print("  diagnosis=%s (%s) class=%s events=%d first: %s" % (diag, ac, cls, len(bs), brief(bs[0])))
            nviol += 1
        rc = 1
    dstates = sum(d["states"] for d in design)
    ddist = sum(d["distinct"] for d in design)
    cov = dict(
        states=max(1, total.distinct + ddist), transitions=max(1, total.states + dstates),
        traces_validated_against_impl=total.traces,
        evaluations=total.events, distinct_nontrivial=len(total.nontrivial), rule=chk["rule"],
        samples=(total.samples[:5] + [dict(design=d["module"], cfg=d["cfg"]) for d in design[:2]]) or ["none"],
        judged_ok=total.ok, skipped_out_of_domain=total.skipped, by_diagnosis=total.by_diag,
        rejected_for_this_property=len(bads), rejected_matching_known_findings=len(bads) - len(unmatched),
        design_states=dstates, design_runs=design, judge_states=total.states,
        exhaustive=False, recorders=getattr(total, "recorders", []),
        tools=dict(tlc="TLC2 2026.09.04 (tla2tools 1.8.0)", gcc="g++-12", clang="clang++-14"))
    vlib.write_evidence(prop, tier, cov, time.time() - t0, nviol, chk["assumptions"])
    log("[%s] %s: events=%d nontrivial=%d rejected(here)=%d unlisted=%d wall=%.1fs" % (
        prop, tier, total.events, len(total.nontrivial), len(bads), len(unmatched), time.time() - t0))
    return rc


def dec(v):
    if not isinstance(v, list):
        return v
    m = 0
    for x in reversed(v[1:]):
        m = (m << 15) | x
    return -m if v[0] else m


def brief(b):
    e = b["event"]
    i = b.get("inst") or {}
    parts = [e.get("e", "?")]
    for k in ("op", "tag", "path", "api"):
        if k in i:
            parts.append("%s=%s" % (k, i[k]))
    for k in ("lt", "rt"):
        if k in i and isinstance(i[k], dict) and "w" in i[k]:
            parts.append("%s=%s%d" % (k, "i" if i[k].get("s") else "u", i[k]["w"]))
    for k in ("l", "r", "res"):
        if k in e:
            parts.append("%s=%s" % (k, dec(e[k])))
    if "out" in e:
        parts.append("out=" + str(e["out"]))
    parts.append("cc=" + str(e.get("cc")))
    parts.append("diag=" + b["diag"])
    return " ".join(parts)
