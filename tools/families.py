"""Families of recorders + judges, design-level model checks, and the per-property check table."""
import collections
import json
import os
import pickle
import re
import shutil
import sys
import time

import vlib
from vlib import log

# ---------------------------------------------------------------------------------------------
# recording + judging a family (cached by content of tree, harness, spec, seed, tier)


def harness_hash():
    return vlib.tree_hash(os.path.join(vlib.VERIF, "harness"))


def family_result(name, tier):
    fam = FAMILIES[name]
    key = vlib.sha(name, tier, vlib.seed(), vlib.include_hash(), harness_hash(), vlib.spec_hash(),
                   open(os.path.abspath(__file__)).read(), open(vlib.__file__).read())
    cdir = os.path.join(vlib.BUILD, "run")
    os.makedirs(cdir, exist_ok=True)
    # work directories of check processes that no longer exist (killed runs) are removed
    for d in os.listdir(cdir):
        m = re.match(r".*\.(\d+)\.d$", d)
        if m and not os.path.exists("/proc/%s" % m.group(1)):
            shutil.rmtree(os.path.join(cdir, d), ignore_errors=True)
    cpath = os.path.join(cdir, "%s-%s.pkl" % (name, key))
    if os.path.exists(cpath) and time.time() - os.path.getmtime(cpath) < 3 * 3600:
        with open(cpath, "rb") as f:
            log("[%s] reusing judged recording %s" % (name, os.path.basename(cpath)))
            return pickle.load(f)
    t0 = time.time()
    jobs = fam["jobs"](tier)
    compile_rejects = []
    if fam.get("literal_units"):
        jobs, compile_rejects = build_literal_units(jobs)
    if any(j.get("instfile") for j in jobs):
        jobs, more = build_inst_units(jobs)
        compile_rejects = compile_rejects + more
    exes = vlib.build_many(jobs)
    log("[%s] built %d recorders in %.1fs" % (name, len(jobs), time.time() - t0))
    wdir = os.path.join(cdir, "%s-%s.%d.d" % (name, key, os.getpid()))      # private to this process
    shutil.rmtree(wdir, ignore_errors=True)
    os.makedirs(wdir)
    t1 = time.time()
    rjobs = []
    for j in jobs:
        rjobs.append((exes[j["tag"]], os.path.join(wdir, j["tag"] + ".ndjson"), j.get("env")))
    vlib.run_recorders(rjobs, timeout=fam.get("record_timeout", 1200))
    log("[%s] recorded in %.1fs" % (name, time.time() - t1))
    if os.environ.get("VERIF_RECORD_ONLY"):      # development aid: size of a tier without judging it
        n = 0
        for _, out, _ in rjobs:
            with open(out, "rb") as f:
                n += sum(1 for _ in f)
        log("[%s] RECORD_ONLY tier=%s lines=%d" % (name, tier, n))
        shutil.rmtree(wdir, ignore_errors=True)
        raise SystemExit(0)
    t2 = time.time()
    merged = vlib.merge_streams([out for _, out, _ in rjobs], os.path.join(wdir, name + ".all.ndjson"))
    for _, out, _ in rjobs:
        os.remove(out)
    total = vlib.judge_file(merged, wdir, module=fam.get("judge", "Judge"), marker=fam.get("shard_marker"), shard=fam.get("shard"))
    log("[%s] judged %d events in %.1fs: %s" % (name, total.events, time.time() - t2, dict(total.by_diag)))
    shutil.rmtree(wdir, ignore_errors=True)
    total.bad += compile_rejects
    total.wall = time.time() - t0
    total.recorders = [j["tag"] for j in jobs]
    with open(cpath + ".tmp%d" % os.getpid(), "wb") as f:
        pickle.dump(total, f)
    os.replace(cpath + ".tmp%d" % os.getpid(), cpath)
    return total


def build_literal_units(jobs):
    """Translation units that consist of generated literals (the program under test contains the tokens) and
    compiled on the unchanged tree: a literal that no longer compiles -- the compiler's diagnostics name its line
    in the generated include -- is a rejected event (diagnosis does_not_compile), not a machinery failure.  The
    unit is rebuilt without the offending lines so that the remaining literals are still judged."""
    rejects = []
    out = []
    for j in jobs:
        inc = j.get("litfile")
        if not inc:
            out.append(j)
            continue
        cur = j
        for _ in range(4):
            try:
                vlib.build_one(cur["src"], cur["cc"], cur.get("defines", []), cur["tag"])
                break
            except vlib.BuildError as e:
                lines = sorted(set(int(m) for m in re.findall(re.escape(os.path.basename(cur["litfile"])) + r":(\d+):", e.output)))
                if not lines:
                    raise
                with open(cur["litfile"]) as f:
                    body = f.read().splitlines()
                keep = []
                for k, text in enumerate(body, 1):
                    if k in lines:
                        m = re.match(r"(LIT_[A-Z0-9]+|MAKE_C)\((.*)\)$", text.strip())
                        kind, tok = (m.group(1), m.group(2)) if m else ("?", text)
                        suffix = {"LIT_C": "_c", "LIT_CNL": "_cnl", "LIT_CNL2": "_cnl2", "LIT_WIDE": "_wide"}.get(kind, kind)
                        base = 16 if tok.lower().startswith("0x") else 2 if tok.lower().startswith("0b") else \
                            8 if (tok.startswith("0") and len(tok) > 1 and "." not in tok) else 10
                        rejects.append(dict(event=dict(e="LitCompile", tok=tok, cc=cur["cc"]), inst=dict(kind="Lit", op=suffix),
                                            diag="does_not_compile", cls='["LitCompile","%s",%d]' % (suffix, base), ac="novel",
                                            file=os.path.basename(cur["litfile"]), line=k))
                    else:
                        keep.append(text)
                nb = "\n".join(keep) + "\n"
                np_ = os.path.join(os.path.dirname(cur["litfile"]), "parse-inst-%s.inc" % vlib.sha(nb))
                with open(np_, "w") as f:
                    f.write(nb)
                cur = dict(cur, litfile=np_, defines=[d for d in cur["defines"] if not d.startswith("VERIF_INST_FILE")] + ['VERIF_INST_FILE="%s"' % np_])
        out.append(cur)
    return out, rejects


# which harness function template an instantiation line calls -> the event kinds (kind, op) it would have produced
INST_KINDS = {
    "pair_all": {"bin": [("ScBin", "add"), ("ScBin", "div")], "assign": [("ScAssign", "add"), ("ScAssign", "div")], "neg": [("ScUn", "neg")], "cmp": [("ScCmp", "cmp")], "ident": [("ScIdent", "ident")],
                 "quot": [("ScQuot", "quotient")], "conv": [("ScConv", "conv")], "roundtrip": [("ScRoundTrip", "roundtrip")]},
    "quot_all": {"quot": [("ScQuot", "quotient")]},
    "conv_all": {"conv": [("ScConv", "conv")]},
    "cmp_all": {"cmp": [("ScCmp", "cmp")]},
    "single_all": {"conv": [("ScConv", "conv")]},
    "el_pair": {"elbin": [("ElBin", "add")], "elneg": [("ElUn", "neg")], "elshift": [("ElShift", "shl")], "ellimits": [("ElLimits", "limits")], "elcmp": [("ScCmp", "cmp")]},
    "text_scaled": {"": [("Tc", "to_chars")]}, "text_integer": {"": [("Tc", "to_chars")]}, "text_wide": {"": [("Tc", "to_chars")]},
}


def build_inst_units(jobs):
    """Recorders whose body is a generated list of instantiations that compile on the unchanged tree (job key
    `instfile`): an instantiation that no longer compiles -- the diagnostics name its line in the generated include and
    the harness function template in whose body the error arose -- is a rejected event (does_not_compile) for the
    event kinds that function records, not a machinery failure.  The unit is rebuilt without the offending lines."""
    rejects, out = [], []
    for j in jobs:
        inc = j.get("instfile")
        if not inc:
            out.append(j)
            continue
        cur = j
        for _ in range(4):
            try:
                vlib.build_one(cur["src"], cur["cc"], cur.get("defines", []), cur["tag"])
                break
            except vlib.BuildError as e:
                lines = sorted(set(int(m) for m in re.findall(re.escape(os.path.basename(cur["instfile"])) + r":(\d+):", e.output)))
                if not lines:
                    raise
                with open(cur["instfile"]) as f:
                    body = f.read().splitlines()
                keep = []
                for k, text in enumerate(body, 1):
                    if k not in lines:
                        keep.append(text)
                        continue
                    fn = text.strip().split("<", 1)[0]
                    table = INST_KINDS.get(fn, {})
                    named = [h for h in table if h and re.search(r"\b%s<" % re.escape(h), e.output)]
                    kinds = [kk for h in (named or list(table)) for kk in table[h]] or [("?", "?")]
                    for kind, op in kinds:
                        rejects.append(dict(event=dict(e="InstCompile", inst=text.strip()[:200], cc=cur["cc"]), inst=dict(kind=kind, op=op),
                                            diag="does_not_compile", cls='["InstCompile","%s","%s"]' % (fn, kind), ac="novel",
                                            file=os.path.basename(cur["instfile"]), line=k))
                nb = "\n".join(keep) + "\n"
                np_ = os.path.join(os.path.dirname(cur["instfile"]), "reduced-inst-%s.inc" % vlib.sha(nb))
                with open(np_, "w") as f:
                    f.write(nb)
                cur = dict(cur, instfile=np_, defines=[d for d in cur["defines"] if not d.startswith("VERIF_INST_FILE")] + ['VERIF_INST_FILE="%s"' % np_])
        out.append(cur)
    return out, rejects


# ---------------------------------------------------------------------------------------------
# design-level model checks (phase A): independent of /repo, so a failure is a machinery failure

def mc_result(mc, tier):
    """mc: dict(module, cfg_quick, cfg_thorough, workers, xmx, timeout); returns dict(states, distinct, wall, coverage)"""
    cfg = mc["cfg_thorough"] if tier == "thorough" and mc.get("cfg_thorough") else mc["cfg_quick"]
    module = os.path.join(vlib.SPEC, mc["module"])
    cfgp = os.path.join(vlib.SPEC, cfg)
    key = vlib.sha("mc", vlib.spec_hash(), cfg, mc["module"])
    cdir = os.path.join(vlib.BUILD, "run")
    os.makedirs(cdir, exist_ok=True)
    cpath = os.path.join(cdir, "mc-%s.json" % key)
    if os.path.exists(cpath):
        with open(cpath) as f:
            return json.load(f)
    t0 = time.time()
    rc, out = vlib.run_tlc(cfgp, module, workers=mc.get("workers", vlib.NCPU), xmx=mc.get("xmx", "8g"),
                           timeout=mc.get("timeout", 1500), extra=["-coverage", "1"] if mc.get("coverage") else [],
                           tag="mc")
    if rc != 0:
        raise vlib.MachineryError("design-level model check %s / %s failed (rc=%d):\n%s" % (mc["module"], cfg, rc, out[-4000:]))
    g, d = vlib.tlc_stats(out)
    res = dict(module=mc["module"], cfg=cfg, states=g, distinct=d, wall_s=round(time.time() - t0, 1),
               constants=open(cfgp).read())
    with open(cpath, "w") as f:
        json.dump(res, f)
    return res


# ---------------------------------------------------------------------------------------------
# overflow family (C06, C07; native-tag events belong to C12)

def overflow_jobs(tier):
    jobs = []
    combos = [("gcc", "intrinsic"), ("gcc", "portable"), ("clang", "portable")]
    if tier == "thorough":
        combos.append(("clang", "intrinsic"))
    for cc, path in combos:
        # quick tier: gcc/intrinsic covers every left operand type, gcc/portable a rotating half,
        # clang/portable a rotating third; thorough covers everything
        for lhs in range(10):
            if tier == "quick" and path == "portable" and cc == "gcc" and (lhs + vlib.seed()) % 2:
                continue
            if tier == "quick" and cc == "clang" and (lhs + vlib.seed()) % 3:
                continue
            jobs.append(dict(src="h_overflow.cpp", cc=cc, tag="ovf-%s-%s-%d" % (cc, path, lhs),
                             defines=["LHS_INDEX=%d" % lhs, 'VERIF_PATH="%s"' % path,
                                      "CNL_VERIF_OVERFLOW_PATH_" + path.upper()]))
    return jobs


def overflow_attr(kind, op, tag, diag):
    """which properties an event of this kind counts for / a rejection with this diagnosis belongs to"""
    if tag in ("native", "undefined"):
        return ["C12"]
    if kind == "OvConvF" and diag is not None:
        # the only undefined operation of a checked conversion from floating point is the cast of a value outside the
        # destination's range, i.e. an overflow that was not detected: such an event fails C06 ("if") as well as C07
        return ["C06", "C07"] if diag == "ub" else ["C07"] if diag in ("unreachable", "timeout") else ["C06"]
    if diag is None:
        return ["C06", "C07"]
    if diag in ("ub", "unreachable", "timeout"):
        return ["C07"]
    return ["C06"]


# ---------------------------------------------------------------------------------------------
# scaled family (C01 +,-,*,neg; C02 /,%,identity; C03 comparisons; C04 conversions)

CTYPE = {(8, 1): "i8", (8, 0): "u8", (16, 1): "i16", (16, 0): "u16", (32, 1): "i32", (32, 0): "u32", (64, 1): "i64",
         (64, 0): "u64"}

SCALED_CORE_PAIRS = [
    "SI<i32,-8,2>, SI<i16,-4,2>", "SI<i8,-70,2>, SI<i16,-65,2>", "SI<i32,-2,10>, SI<i32,0,10>", "SI<i32,-8,2>, i32",
    "i64, SI<i16,-3,2>", "SI<u32,-8,2>, SI<i32,-8,2>", "SI<u8,0,2>, SI<i8,3,2>", "SI<i64,-40,2>, SI<i64,-20,2>",
    "SI<u64,-63,2>, SI<u64,-60,2>", "SI<u16,5,2>, SI<u32,1,2>", "SI<i64,-3,10>, SI<i32,-1,10>", "SI<u16,-1,10>, u8",
    "SI<cnl::elastic_integer<20>,-8,2>, SI<cnl::elastic_integer<10>,-3,2>",
    "SI<cnl::elastic_integer<31>,-16,2>, SI<cnl::elastic_integer<31, unsigned>,-12,2>",
    "SI<cnl::elastic_integer<7>,-70,2>, SI<cnl::elastic_integer<24>,-65,2>",
    "SI<cnl::elastic_integer<40>,-30,2>, SI<cnl::elastic_integer<50>,-35,2>",
    "SI<cnl::elastic_integer<12>,-2,10>, SI<cnl::elastic_integer<9>,0,10>",
    "SI<cnl::overflow_integer<i32, cnl::native_overflow_tag>,-8,2>, SI<cnl::overflow_integer<i32, cnl::native_overflow_tag>,-6,2>",
    "SI<cnl::rounding_integer<i32, cnl::native_rounding_tag>,-8,2>, SI<cnl::rounding_integer<i16, cnl::native_rounding_tag>,-6,2>",
    "SI<cnl::int128_t,-70,2>, SI<i64,-60,2>", "SI<cnl::uint128_t,-100,2>, SI<cnl::uint128_t,-90,2>",
    "SI<cnl::elastic_integer<20>,-8,2>, i32", "i16, SI<cnl::elastic_integer<20>,-8,2>",
    "SI<cnl::elastic_integer<12, unsigned>,-4,2>, SI<cnl::elastic_integer<10>,-6,2>",
    "cnl::elastic_scaled_integer<8, cnl::power<-2>, unsigned>, cnl::elastic_scaled_integer<8, cnl::power<-2>>",
    "SI<cnl::elastic_integer<30>,-10,2>, SI<cnl::elastic_integer<30, unsigned>,-10,2>",
    # elastic representations on both sides of the 31-digit storage boundary (one operand needs a wider native type)
    "SI<cnl::elastic_integer<40>,-8,2>, SI<cnl::elastic_integer<10>,-4,2>", "SI<cnl::elastic_integer<10>,-4,2>, SI<cnl::elastic_integer<40>,-8,2>",
    "SI<cnl::elastic_integer<33, unsigned>,-2,2>, SI<cnl::elastic_integer<7>,0,2>",
    # exponent differences equal to / one off the digit count of the representation (conversions shift every digit out)
    "SI<i8,-7,2>, i32", "SI<i16,-15,2>, i32", "SI<i8,0,2>, SI<i8,7,2>", "SI<i16,-15,2>, SI<i16,0,2>",
    "SI<i8,-8,2>, i16", "SI<u8,-8,2>, u8", "SI<i8,-6,2>, i8", "SI<u16,-16,2>, SI<u16,1,2>",
    # round 8: exponent differences at the widths of int / long (alignment shifts of 31, 32, 62, 63 bits; 10^18, 10^19)
    "SI<i64,-31,2>, SI<i64,0,2>", "SI<i64,0,2>, SI<i64,-32,2>", "SI<u64,-63,2>, SI<u64,0,2>", "SI<i64,-62,2>, i64",
    "SI<u32,-32,2>, SI<u64,0,2>", "SI<i64,31,2>, SI<i64,-1,2>", "SI<i64,-18,10>, SI<i64,0,10>", "SI<i64,0,10>, SI<i32,-18,10>",
]
# dividend exponent far above / below the divisor's: quotient() with a positive / strongly negative result exponent
# (quotient only: conversions between such types do not compile -- power_value static_asserts)
SCALED_CORE_QUOTS = [
    "SI<u32,40,2>, SI<u32,0,2>", "SI<i16,30,2>, SI<i8,-2,2>", "SI<i32,20,2>, SI<i16,1,2>", "SI<u8,12,2>, SI<u8,3,2>",
    "SI<i8,-20,2>, SI<i32,10,2>", "SI<i64,5,2>, SI<i8,-3,2>",
]
SCALED_CORE_SINGLES = ["SI<i32,-8,2>", "SI<i64,-70,2>", "SI<u16,3,2>", "SI<i8,-7,2>", "SI<u64,-32,2>", "SI<i64,40,2>",
                       "SI<cnl::elastic_integer<24>,-12,2>", "SI<cnl::elastic_integer<53>,-60,2>", "i32", "u64",
                       # round 8: exponents at the digit counts / widths of the built-in integers (a scale factor computed by an
                       # integer shift is wrong exactly there)
                       "SI<i64,-63,2>", "SI<i64,63,2>", "SI<u64,-64,2>", "SI<u64,64,2>", "SI<i32,-31,2>", "SI<i32,31,2>",
                       "SI<u32,-32,2>", "SI<i16,-15,2>", "SI<i8,63,2>", "SI<i16,-63,2>", "SI<i32,-62,2>", "SI<u8,-8,2>",
                       # round 8: floating point <-> scales whose radix is not 2 (judged exactly; deviations bound to AsCodedDecFloat)
                       "SI<i32,-2,10>", "SI<i64,-6,10>", "SI<i16,1,10>", "SI<u8,-1,10>", "SI<i32,-9,10>", "SI<i64,5,10>",
                       "SI<i32,-3,3>", "SI<i64,-18,10>"]


SCALED_CORE_CMPS = [
    "cnl::elastic_integer<8, unsigned>, cnl::elastic_integer<7>", "cnl::elastic_integer<31>, cnl::elastic_integer<32, unsigned>",
    "cnl::elastic_integer<63>, cnl::elastic_integer<64, unsigned>", "cnl::elastic_integer<16, unsigned>, cnl::elastic_integer<40>",
    "cnl::elastic_integer<15>, cnl::elastic_integer<15, unsigned>", "cnl::elastic_integer<20>, i32", "u16, cnl::elastic_integer<9>",
    "cnl::elastic_integer<3, i8>, cnl::elastic_integer<60, u8>",
    "cnl::elastic_scaled_integer<20, cnl::power<-10>>, cnl::elastic_scaled_integer<12, cnl::power<-3>, unsigned>",
    # a CNL number against a built-in integer that is wider than / of other signedness than its representation
    "cnl::elastic_integer<8, unsigned>, i32", "cnl::elastic_integer<4>, i64", "cnl::elastic_integer<10>, u64",
    "cnl::elastic_integer<33>, i16", "SI<u8,-8,2>, i32", "SI<i32,-16,2>, i64", "SI<i16,-4,2>, u32", "SI<u16,2,2>, i8",
    "SI<i8,-2,10>, i32", "SI<cnl::elastic_integer<6, unsigned>,-3,2>, i64",
    "cnl::elastic_scaled_integer<9, cnl::power<-4>, unsigned>, i32",
]


# conversions between a binary and a decimal scale (conversions only)
SCALED_CORE_CONVS = [
    "SI<i32,0,2>, SI<i32,2,10>", "SI<i32,-4,2>, SI<i64,-2,10>", "SI<i16,3,2>, SI<i32,1,10>", "SI<i32,-3,10>, SI<i32,-8,2>",
    "SI<i64,-6,10>, SI<i64,-20,2>", "SI<u32,2,10>, SI<u32,-3,2>", "SI<i8,0,2>, SI<i32,-2,10>", "SI<i32,1,10>, SI<i32,4,2>",
]


def lattice_rows():
    path = vlib.gen_file("lattice", "GenLattice.tla", "GenLattice.cfg")
    rows = []
    with open(path) as f:
        for line in f:
            t = line.split()
            if len(t) == 7:
                rows.append(tuple(int(x) for x in t))
    rows.sort()
    return rows


def scaled_inst_files(tier):
    import random
    rows = lattice_rows()
    rnd = random.Random(vlib.seed() * 1000003 + 17)
    npairs = 26 if tier == "quick" else 330
    nsingles = 6 if tier == "quick" else 40
    pick = rnd.sample(rows, npairs)
    pairs = list(SCALED_CORE_PAIRS)
    for lw, ls, le, rw, rs, re_, rx in pick:
        pairs.append("SI<%s,%d,%d>, SI<%s,%d,%d>" % (CTYPE[(lw, ls)], le, rx, CTYPE[(rw, rs)], re_, rx))
    singles = list(SCALED_CORE_SINGLES)
    for lw, ls, le, rw, rs, re_, rx in rnd.sample([r for r in rows if r[6] == 2], nsingles):
        singles.append("SI<%s,%d,2>" % (CTYPE[(lw, ls)], le))
    items = ["pair_all<%s>(out, %d);" % (p, k + 1) for k, p in enumerate(pairs)] + \
            ["single_all<%s>(out, %d);" % (p, k + 1001) for k, p in enumerate(singles)] + \
            ["cmp_all<%s>(out, %d);" % (p, k + 2001) for k, p in enumerate(SCALED_CORE_CMPS)] + \
            ["quot_all<%s>(out, %d);" % (p, k + 3001) for k, p in enumerate(SCALED_CORE_QUOTS)] + \
            ["conv_all<%s>(out, %d);" % (p, k + 4001) for k, p in enumerate(SCALED_CORE_CONVS)]
    nfiles = vlib.NCPU if tier == "quick" else 2 * vlib.NCPU
    d = os.path.join(vlib.BUILD, "gen")
    files = []
    for k in range(nfiles):
        body = "\n".join(items[k::nfiles]) + "\n"
        if not body.strip():
            continue
        p = os.path.join(d, "scaled-inst-%s.inc" % vlib.sha(body))
        if not os.path.exists(p):
            with open(p + ".tmp", "w") as f:
                f.write(body)
            os.replace(p + ".tmp", p)
        files.append(p)
    return files


def scaled_jobs(tier):
    jobs = []
    for k, f in enumerate(scaled_inst_files(tier)):
        # the same instantiations under g++; a rotating quarter also under clang++
        jobs.append(dict(src="h_scaled.cpp", cc="gcc", tag="scaled-gcc-%d" % k, instfile=f, defines=['VERIF_INST_FILE="%s"' % f]))
        if tier == "thorough" or (k + vlib.seed()) % 4 == 0:
            jobs.append(dict(src="h_scaled.cpp", cc="clang", tag="scaled-clang-%d" % k, instfile=f, defines=['VERIF_INST_FILE="%s"' % f]))
    return jobs


def scaled_attr(kind, op, tag, diag):
    if (kind in ("ScBin", "ScIdent", "ScAssign") and op in ("div", "mod", "ident")) or kind == "ScQuot":
        return ["C02"]
    if kind in ("ScBin", "ScUn", "ScAssign"):
        return ["C01"]
    if kind == "ScCmp":
        return ["C03"]
    return ["C04"]


# ---------------------------------------------------------------------------------------------
# elastic family (C05)

NWT = {8: ("i8", "u8"), 32: ("i32", "u32"), 64: ("i64", "u64")}
ELASTIC_CORE = ["E<3>, E<3>", "E<7>, E<8, u32>", "E<31>, E<31>", "E<31>, E<32, u32>", "E<40>, E<31>", "E<31>, E<40>",
                "E<63>, E<63>", "E<63, u64>, E<1>", "E<15, i8>, E<16, u8>", "E<20>, i32", "u16, E<9>", "E<64, u32>, E<62>",
                "E<33>, E<2, u8>", "E<1>, E<1, u8>", "E<8, i64>, E<8, i64>",
                # an elastic type with an unsigned narrowest against signed built-in operands, either side
                "E<5, u32>, i32", "E<16, u16>, i16", "i64, E<8, u8>", "i8, E<12, u32>"]


def elastic_jobs(tier):
    import random
    path = vlib.gen_file("elastic", "GenElastic.tla", "GenElastic.cfg", deps=("BigInt.tla", "CxxInt.tla", "CnlTypes.tla", "SemElastic.tla"))
    rows = sorted(tuple(int(x) for x in l.split()) for l in open(path) if len(l.split()) == 6)
    rnd = random.Random(vlib.seed() * 7919 + 5)
    pick = rnd.sample(rows, 40 if tier == "quick" else 400)
    pairs = list(ELASTIC_CORE)
    for ld, ls, lnw, rd, rs, rnw in pick:
        pairs.append("E<%d, %s>, E<%d, %s>" % (ld, NWT[lnw][0 if ls else 1], rd, NWT[rnw][0 if rs else 1]))
    items = ["el_pair<%s>(out, %d);" % (p, k + 1) for k, p in enumerate(pairs)]
    nfiles = vlib.NCPU if tier == "quick" else 2 * vlib.NCPU
    jobs = []
    for k in range(nfiles):
        body = "\n".join(items[k::nfiles]) + "\n"
        if not body.strip():
            continue
        p = os.path.join(vlib.BUILD, "gen", "elastic-inst-%s.inc" % vlib.sha(body))
        if not os.path.exists(p):
            with open(p + ".tmp", "w") as f:
                f.write(body)
            os.replace(p + ".tmp", p)
        jobs.append(dict(src="h_elastic.cpp", cc="gcc", tag="el-gcc-%d" % k, instfile=p, defines=['VERIF_INST_FILE="%s"' % p]))
        if tier == "thorough" or (k + vlib.seed()) % 4 == 0:
            jobs.append(dict(src="h_elastic.cpp", cc="clang", tag="el-clang-%d" % k, instfile=p, defines=['VERIF_INST_FILE="%s"' % p]))
    return jobs


def elastic_attr(kind, op, tag, diag):
    return ["C05"]


# ---------------------------------------------------------------------------------------------
# rounding family (C08 division, other operators; C09 narrowing conversions)

def rounding_jobs(tier):
    jobs = []
    for lhs in range(8):
        jobs.append(dict(src="h_rounding.cpp", cc="gcc", tag="rnd-gcc-%d" % lhs, defines=["LHS_INDEX=%d" % lhs]))
        if tier == "thorough" or (lhs + vlib.seed()) % 4 == 0:
            jobs.append(dict(src="h_rounding.cpp", cc="clang", tag="rnd-clang-%d" % lhs, defines=["LHS_INDEX=%d" % lhs]))
    return jobs


def rounding_attr(kind, op, tag, diag):
    return ["C09"] if kind == "RConv" else ["C08"]


# ---------------------------------------------------------------------------------------------
# bits family (C18)

def bits_jobs(tier):
    return [dict(src="h_bits.cpp", cc="gcc", tag="bits-gcc"), dict(src="h_bits.cpp", cc="clang", tag="bits-clang"),
            dict(src="h_bits.cpp", cc="gcc", tag="bits-gcc-generic", defines=["CNL_USE_GCC_INTRINSICS=0"])]


def simple_jobs(src, tagp, clang=True):
    def jobs(tier):
        j = [dict(src=src, cc="gcc", tag=tagp + "-gcc")]
        if clang:
            j.append(dict(src=src, cc="clang", tag=tagp + "-clang"))
        return j
    return jobs


def fraction_attr(kind, op, tag, diag):
    if kind == "FrCtad":
        # fraction{floating}: the deduction clause is C15's, the contract for the deduced component type C17's
        if diag is None:
            return ["C15", "C17"]
        return ["C15"] if diag in ("wrong_type", "initializer_not_held") else ["C17"]
    if kind == "FrCtadInt":
        return ["C15"]
    return ["C17"] if kind == "FrFromFloat" else ["C16"]


# ---------------------------------------------------------------------------------------------
# text family (C13 buffer discipline, C14 text denotes value)

TEXT_CORE = ["text_scaled<SI<i8,-4>>", "text_scaled<SI<i32,-30>>", "text_scaled<SI<i16,-2,10>>", "text_scaled<SI<u8,3>>",
             "text_scaled<SI<i8,-70>>", "text_scaled<SI<u16,70>>", "text_scaled<SI<i64,-60>>", "text_scaled<SI<i32,0>>",
             "text_scaled<SI<u8,-3,3>>", "text_scaled<SI<i16,2,8>>", "text_scaled<SI<i8,5,10>>", "text_scaled<SI<u64,-64>>",
             "text_scaled<SI<i16,-16>>", "text_scaled<SI<cnl::elastic_integer<24>,-10>>", "text_scaled<SI<i32,20>>",
             # radices that are not powers of two with positive exponents (the capacity formula's general case)
             "text_scaled<SI<i8,2,3>>", "text_scaled<SI<u8,4,3>>", "text_scaled<SI<i16,3,7>>", "text_scaled<SI<u8,2,6>>",
             "text_scaled<SI<cnl::elastic_integer<1, unsigned>,5,3>>",
             # round 10: representations wider than 64 bits (the significand of descale is then as wide as the representation)
             "text_scaled<SI<cnl::int128_t,-100>>", "text_scaled<SI<cnl::int128_t,-20>>",
             "text_integer<i8>", "text_integer<u8>", "text_integer<i16>", "text_integer<i32>", "text_integer<u32>",
             "text_integer<i64>", "text_integer<u64>", "text_integer<cnl::int128_t>", "text_integer<cnl::uint128_t>",
             "text_integer<cnl::elastic_integer<20>>",
             # wide_integer beyond 128 bits (signed only: cnl::to_chars does not compile for unsigned multi-limb types)
             "text_wide<cnl::wide_integer<200>>", "text_wide<cnl::wide_integer<256, std::int32_t>>",
             "text_wide<cnl::wide_integer<130, std::int8_t>>", "text_wide<cnl::wide_integer<133>>", "text_wide<cnl::wide_integer<196, std::int16_t>>",
             # integers whose arithmetic is not the built-in one (the digit loop divides and multiplies)
             "text_integer<cnl::rounding_integer<i32, cnl::nearest_rounding_tag>>",
             "text_integer<cnl::rounding_integer<i16, cnl::tie_to_pos_inf_rounding_tag>>",
             "text_integer<cnl::rounding_integer<i64, cnl::neg_inf_rounding_tag>>",
             "text_integer<cnl::overflow_integer<i32, cnl::saturated_overflow_tag>>",
             "text_integer<cnl::static_integer<20>>",
             # signed types whose static capacity is 2 or 3 characters
             "text_integer<cnl::elastic_integer<3>>", "text_integer<cnl::elastic_integer<1>>", "text_integer<cnl::elastic_integer<6>>"]


def text_jobs(tier):
    import random
    rnd = random.Random(vlib.seed() * 31337 + 3)
    reps = ["i8", "u8", "i16", "u16", "i32", "u32", "i64", "u64"]
    items = list(TEXT_CORE)
    for _ in range(14 if tier == "quick" else 160):
        rx = rnd.choice([2, 2, 2, 10, 10, 3, 8])
        e = rnd.randint(-70, 70) if rx == 2 else rnd.randint(-20, 20)
        items.append("text_scaled<SI<%s,%d,%d>>" % (rnd.choice(reps), e, rx))
    items = sorted(set(items))
    lines = ["%s(out, gb, %d);" % (it, k + 1) for k, it in enumerate(items)]
    nfiles = vlib.NCPU if tier == "quick" else 2 * vlib.NCPU
    jobs = []
    for k in range(nfiles):
        body = "\n".join(lines[k::nfiles]) + "\n"
        if not body.strip():
            continue
        p = os.path.join(vlib.BUILD, "gen", "text-inst-%s.inc" % vlib.sha(body))
        os.makedirs(os.path.dirname(p), exist_ok=True)
        if not os.path.exists(p):
            with open(p + ".tmp", "w") as f:
                f.write(body)
            os.replace(p + ".tmp", p)
        jobs.append(dict(src="h_text.cpp", cc="gcc", tag="text-gcc-%d" % k, instfile=p, defines=['VERIF_INST_FILE="%s"' % p]))
        if tier == "thorough" or (k + vlib.seed()) % 4 == 0:
            jobs.append(dict(src="h_text.cpp", cc="clang", tag="text-clang-%d" % k, instfile=p, defines=['VERIF_INST_FILE="%s"' % p]))
    return jobs


def text_attr(kind, op, tag, diag):
    if diag is None:
        return ["C13", "C14"]
    if diag in ("ub", "timeout", "unreachable", "wrote_before_first", "bad_shape", "not_exactly_first_to_p",
                "static_capacity_too_small", "refused_though_it_fits"):
        return ["C13"]
    return ["C14"]


def native_jobs(tier):
    jobs = []
    for nestk in range(5):
        for lhs in range(8):
            if tier == "quick" and (nestk * 3 + lhs + vlib.seed()) % 3 and not (nestk == 0 and lhs == 4):
                continue
            cc = "clang" if (nestk + lhs) % 5 == 0 else "gcc"
            jobs.append(dict(src="h_native.cpp", cc=cc, tag="nt-%s-%d-%d" % (cc, nestk, lhs), defines=["NEST=%d" % nestk, "LHS_INDEX=%d" % lhs]))
    return jobs


# ---------------------------------------------------------------------------------------------
# parse family (C15): run-time parse, generated compile-time literals, make_* deduction

def literal_tokens(tier):
    import random
    rnd = random.Random(vlib.seed() * 65537 + 11)
    n = 40 if tier == "quick" else 300

    def digits(base, length, lead):
        al = "0123456789abcdef"[:base]
        body = "".join(rnd.choice(al) for _ in range(length - 1))
        return al[lead] + body

    def seps(s, stride):
        out = s
        for pos in range(len(s) - stride, 0, -stride):
            out = out[:pos] + "'" + out[pos:]
        return out
    c, cnl, cnl2, wide, mk = [], [], [], [], []
    # _c: intmax_t range -> up to 18 decimal / 15 hex / 20 octal / 62 binary digits
    for base, pre, maxlen in ((10, "", 18), (16, "0x", 15), (8, "0", 20), (2, "0b", 62)):
        for length in sorted(set([1, 2, maxlen // 2, maxlen - 1, maxlen] + [rnd.randint(1, maxlen) for _ in range(n // 8)])):
            for lead in (1, base - 1):
                c.append(pre + digits(base, length, lead))
        c.append(pre + seps(digits(base, maxlen, 1), 3))
        if base == 16:
            c += [("0X" + digits(16, k, 10 + k % 6)).upper().replace("0X", "0X", 1) for k in (1, 2, 7, 14)]
            c += ["0x" + digits(16, k, 15).upper() for k in (3, 9, 15)]
        if base == 2:
            c.append("0B" + digits(2, 17, 1))
    for _ in range(n):
        ip = digits(10, rnd.randint(1, 9), rnd.randint(1, 9))
        fp = digits(10, rnd.randint(1, 8), rnd.randint(0, 9)).rstrip("0") or "5"
        cnl.append(ip + "." + fp)
        cnl.append(ip + "0" * rnd.randint(0, 6))
    for _ in range(n // 2):
        ip = digits(10, rnd.randint(1, 9), rnd.randint(1, 9))
        k = rnd.randint(1, 6)
        fp = ("%.6f" % (rnd.randrange(1, 2 ** k, 2) / 2.0 ** k)).split(".")[1].rstrip("0")
        cnl2.append(ip + "." + fp)
        cnl2.append(str(rnd.randrange(1, 2 ** 20) << rnd.randint(0, 20)))
        cnl.append("0x" + digits(16, rnd.randint(1, 14), rnd.randint(1, 15)))
    # digit separators on both sides of the radix point (the separators after the point must not count as digits)
    def sep_at(s):
        if len(s) < 2:
            return s
        ks = [k for k in range(1, len(s)) if s[k - 1] != "'" and s[k] != "'"]      # never two separators in a row
        if not ks:
            return s
        k = rnd.choice(ks)
        return s[:k] + "'" + s[k:]
    cnl += ["1'0.2'5", "0.062'5", "1'234'567.000'001", "9.9'9'9", "12.5'0'0'0'1"]
    cnl2 += ["1'0.2'5", "0.062'5", "3.1'2'5", "1'024.5"]
    for _ in range(n // 4):
        ip = digits(10, rnd.randint(1, 9), rnd.randint(1, 9))
        fp = digits(10, rnd.randint(2, 8), rnd.randint(0, 9)).rstrip("0") or "25"
        cnl.append(seps(ip, 3) + "." + sep_at(sep_at(fp)))
        k = rnd.randint(2, 6)
        f2 = ("%.6f" % (rnd.randrange(1, 2 ** k, 2) / 2.0 ** k)).split(".")[1].rstrip("0")
        cnl2.append(sep_at(ip) + "." + sep_at(f2))
    # _wide: every chunk boundary (18 dec / 15 hex / 21 oct / 63 bin digits per chunk)
    for base, pre, stride in ((10, "", 18), (16, "0x", 15), (8, "0", 21), (2, "0b", 63)):
        lens = sorted(set([1, stride - 1, stride, stride + 1, 2 * stride - 1, 2 * stride, 2 * stride + 1, 3 * stride + 2] +
                          [rnd.randint(1, 4 * stride) for _ in range(n // 10)]))
        for length in lens:
            for lead in (1, max(1, base // 2 - 1), base // 2, base - 1):
                wide.append(pre + digits(base, length, lead))
        wide.append(pre + seps(digits(base, 2 * stride + 3, 1), stride))
    # round 9: constants with exactly 31 / 32 / 33 / 62 / 63 significant bits (after the trailing zeros), both signs, some shifted
    sig = []
    for nb in (31, 32, 33, 62, 63):
        for u in ((1 << nb) - 1, (1 << (nb - 1)) + 1):
            sig += [u, -u]
            if nb + 7 < 63:
                sig.append(u << 7)
    for v in sig + [0, 1, -1, 2, 3, 96, -96, 255, 256, 257, 1 << 20, (1 << 20) + 1, (1 << 31) - 1, 1 << 31, -(1 << 31), (1 << 40) * 3,
              (1 << 62), (1 << 63) - 1, -((1 << 63) - 1), 0x5555555555555555, 0x2AAAAAAAAAAAAAAA] + \
             [rnd.randrange(1, 1 << rnd.randint(2, 62)) << rnd.randint(0, 10) for _ in range(n // 3)]:
        if -(1 << 63) < v < (1 << 63):
            mk.append(v)
    # the library's width estimate for decimal tokens, (n*3322+678)/1000 - (leading digit*2 < 10), is one bit short
    # for some tokens (known finding WIDE-LITERAL-WIDTH-ESTIMATE: those literals do not compile); keep them out of
    # the generated units -- the probe in parse_extra() reports the finding
    def compiles(tok):
        if tok.startswith("0"):
            return True
        d = tok.replace("'", "")
        est = (len(d) * 3322 + 678) // 1000 - (1 if int(d[0]) * 2 < 10 else 0)
        return int(d).bit_length() <= max(est, 31)
    wide = [t for t in wide if compiles(t)]
    # constants beyond 64 bits (the _c literal yields 128-bit constants): many trailing zero bits, odd 65-bit values
    c += ["0x10000000000000000", "0x20000000000000000", "0x7F000000000000000000", "0x10000000000000001",
          "0x40000000000000000000000000000000", "0x%x" % (rnd.getrandbits(100) | (1 << 99))]
    big = [(1, 64), (1, 65), (-1, 65), (1, 72), (127, 72), (1, 100), (-3, 100), (1, 126), (5, 64), (rnd.randrange(3, 1 << 40, 2), 70)]
    lines = ["LIT_C(%s)" % t for t in sorted(set(c))] + ["LIT_CNL(%s)" % t for t in sorted(set(cnl))] + \
            ["LIT_CNL2(%s)" % t for t in sorted(set(cnl2))] + ["LIT_WIDE(%s)" % t for t in sorted(set(wide))] + \
            ["MAKE_C(%dLL)" % v for v in sorted(set(mk))] + \
            ["MAKE_C((static_cast<__int128>(%dLL) << %d))" % mk2 for mk2 in big] + ["MAKE_C(((static_cast<__int128>(1) << 64) + 1))",
             "MAKE_C(((static_cast<__int128>(1) << 64) - 1))", "MAKE_C(((static_cast<__int128>(1) << 63) + 1))",
             "MAKE_C((-((static_cast<__int128>(1) << 64) - 1)))", "MAKE_C((((static_cast<__int128>(1) << 64) - 1) << 20))",
             "MAKE_C(((static_cast<__int128>(1) << 65) - 1))"]
    return lines


def parse_jobs(tier):
    lines = literal_tokens(tier)
    nfiles = 8 if tier == "quick" else 24
    jobs = [dict(src="h_parse.cpp", cc="gcc", tag="parse-gcc-rt", defines=["PARSE_PART=0"]),
            dict(src="h_parse.cpp", cc="clang", tag="parse-clang-rt", defines=["PARSE_PART=0"])]
    for k in range(nfiles):
        body = "\n".join(lines[k::nfiles]) + "\n"
        p = os.path.join(vlib.BUILD, "gen", "parse-inst-%s.inc" % vlib.sha(body))
        os.makedirs(os.path.dirname(p), exist_ok=True)
        if not os.path.exists(p):
            with open(p + ".tmp", "w") as f:
                f.write(body)
            os.replace(p + ".tmp", p)
        cc = "clang" if (k + vlib.seed()) % 4 == 0 else "gcc"
        jobs.append(dict(src="h_parse.cpp", cc=cc, tag="parse-%s-lit-%d" % (cc, k), litfile=p, defines=["PARSE_PART=1", 'VERIF_INST_FILE="%s"' % p]))
    return jobs


WIDE_LITERAL_PROBE = "9610313641246308506"


def parse_extra(prop, tier, total, bads, design):
    """compile probe for the known width-estimate defect of decimal _wide literals"""
    d = os.path.join(vlib.BUILD, "gen")
    os.makedirs(d, exist_ok=True)
    inc = os.path.join(d, "parse-probe.inc")
    with open(inc, "w") as f:
        f.write("LIT_WIDE(%s)\n" % WIDE_LITERAL_PROBE)
    try:
        vlib.build_one("h_parse.cpp", "gcc", ["PARSE_PART=1", 'VERIF_INST_FILE="%s"' % inc], "parse-probe")
    except vlib.BuildError as e:
        if "overflow in constant expression" in e.output or "static assertion" in e.output:
            bads.append(dict(event=dict(e="LitCompile", tok=WIDE_LITERAL_PROBE, cc="gcc"), inst=dict(kind="Lit", op="_wide"),
                             diag="does_not_compile", cls='["LitCompile","_wide",10]', ac="novel", file="probe", line=0))
        else:
            raise


# ---------------------------------------------------------------------------------------------
# static family (C11): TLC-simulated programs replayed on real static_number objects, judged by JudgeMachine

def static_programs(tier):
    """programs from `tlc -simulate` on gen/GenPrograms.tla (seeded by VERIF_SEED), de-duplicated and sampled"""
    import random
    n = 1500 if tier == "quick" else 40000
    d = os.path.join(vlib.BUILD, "gen")
    os.makedirs(d, exist_ok=True)
    key = vlib.sha(open(os.path.join(vlib.SPEC, "gen", "GenPrograms.tla")).read(), open(os.path.join(vlib.SPEC, "gen", "GenPrograms.cfg")).read(),
                   vlib.seed(), n)
    path = os.path.join(d, "programs-%s.json" % key)
    if os.path.exists(path):
        return path
    raw = path + ".raw%d" % os.getpid()
    if os.path.exists(raw):
        os.remove(raw)
    sims = 400 if tier == "quick" else 12000
    rc, out = vlib.run_tlc(os.path.join(vlib.SPEC, "gen", "GenPrograms.cfg"), os.path.join(vlib.SPEC, "gen", "GenPrograms.tla"),
                           env={"OUT": raw}, tag="genprog", timeout=1200,
                           extra=["-simulate", "num=%d" % sims, "-depth", "8", "-seed", str(vlib.seed())])
    if not os.path.exists(raw):
        raise vlib.MachineryError("GenPrograms produced nothing:\n" + out[-2000:])
    seen, progs = set(), []
    with open(raw) as f:
        for line in f:
            try:
                p = json.loads(json.loads(line))
            except ValueError:
                continue
            k = json.dumps(p, separators=(",", ":"))
            if k not in seen:
                seen.add(k)
                progs.append(k)
    os.remove(raw)
    random.Random(vlib.seed()).shuffle(progs)
    with open(path + ".tmp", "w") as f:
        f.write("\n".join(progs[:n]) + "\n")
    os.replace(path + ".tmp", path)
    return path


def static_jobs(tier):
    progs = static_programs(tier)
    jobs = [dict(src="h_static.cpp", cc="gcc", tag="static-gcc-%d" % m, defines=["MENU=%d" % m], env={"VERIF_PROGRAMS": progs}) for m in (0, 1, 2, 3, 4, 5)]      # 4 = limb-aligned digit counts, 5 = unsigned Narrowest
    m = vlib.seed() % 4
    jobs.append(dict(src="h_static.cpp", cc="clang", tag="static-clang-%d" % m, defines=["MENU=%d" % m], env={"VERIF_PROGRAMS": progs}))
    return jobs


# generous constant-evaluation limits: a constant that became slower to evaluate is judged by its value, not by the
# compiler's default step limit
CONSTEXPR_GCC = ("-fconstexpr-ops-limit=2000000000", "-fconstexpr-loop-limit=100000000", "-fconstexpr-depth=4096")
CONSTEXPR_CLANG = ("-fconstexpr-steps=1000000000", "-fconstexpr-depth=4096")


def math_jobs(tier):
    jobs = [dict(src="h_math.cpp", cc="gcc", tag="math-gcc-%d" % k, defines=["MATH_SET=%d" % k], extra_flags=CONSTEXPR_GCC) for k in range(6)]
    jobs.append(dict(src="h_math.cpp", cc="clang", tag="math-clang-%d" % (vlib.seed() % 3), defines=["MATH_SET=%d" % (vlib.seed() % 3)],
                     extra_flags=CONSTEXPR_CLANG))
    return jobs


def wide_jobs(tier):
    sets = [0, 1, 2, 3] if tier == "quick" else [0, 1, 2, 3, 4]
    jobs = [dict(src="h_wide.cpp", cc="gcc", tag="wide-gcc-%d" % k, defines=["WIDE_SET=%d" % k]) for k in sets]
    jobs.append(dict(src="h_wide.cpp", cc="clang", tag="wide-clang-%d" % (vlib.seed() % 3), defines=["WIDE_SET=%d" % (vlib.seed() % 3)]))
    return jobs


FAMILIES = {
    "static": dict(jobs=static_jobs, attr=lambda kind, op, tag, diag: ["C11"], judge="JudgeMachine", shard_marker='"e":"StReset"'),
    "math": dict(jobs=math_jobs, attr=lambda kind, op, tag, diag: ["C20"], record_timeout=1800),
    "parse": dict(jobs=parse_jobs, attr=lambda kind, op, tag, diag: ["C15"], literal_units=True),
    "native": dict(jobs=native_jobs, attr=lambda kind, op, tag, diag: ["C12"]),
    "text": dict(jobs=text_jobs, attr=text_attr, record_timeout=1800),
    # small shards: events on 1000- and 2048-bit operands cost far more than the average, and a shard is one TLC process
    "wide": dict(jobs=wide_jobs, attr=lambda kind, op, tag, diag: ["C03", "C10"] if kind == "WCmp" else ["C10"], record_timeout=1800, shard=2000),
    "fraction": dict(jobs=simple_jobs("h_fraction.cpp", "fraction"), attr=fraction_attr, shard=25000),
    "sqrt": dict(jobs=simple_jobs("h_sqrt.cpp", "sqrt"), attr=lambda kind, op, tag, diag: ["C19"]),
    "bits": dict(jobs=bits_jobs, attr=lambda kind, op, tag, diag: ["C18"]),
    "elastic": dict(jobs=elastic_jobs, attr=elastic_attr),
    "rounding": dict(jobs=rounding_jobs, attr=rounding_attr),
    "overflow": dict(jobs=overflow_jobs, attr=overflow_attr),
    "scaled": dict(jobs=scaled_jobs, attr=scaled_attr),
}

MCS = {
    "tochars": dict(module="mc/MC_ToChars.tla", cfg_quick="mc/MC_ToChars_quick.cfg", cfg_thorough="mc/MC_ToChars_thorough.cfg",
                    xmx="8g", timeout=1800),
    "sqrt": dict(module="alg/SqrtAlg.tla", cfg_quick="alg/SqrtAlg_quick.cfg", cfg_thorough="alg/SqrtAlg_thorough.cfg",
                 xmx="8g", timeout=1800),
    "elastic": dict(module="mc/MC_Elastic.tla", cfg_quick="mc/MC_Elastic_quick.cfg",
                    cfg_thorough="mc/MC_Elastic_thorough.cfg", xmx="8g", timeout=2400),
    "rounding": dict(module="mc/MC_Rounding.tla", cfg_quick="mc/MC_Rounding_quick.cfg",
                     cfg_thorough="mc/MC_Rounding_thorough.cfg", xmx="8g", timeout=2400),
    "rconv": dict(module="mc/MC_RConv.tla", cfg_quick="mc/MC_RConv_quick.cfg",
                  cfg_thorough="mc/MC_RConv_thorough.cfg", xmx="8g", timeout=2400),
    "decfloat": dict(module="mc/MC_DecFloat.tla", cfg_quick="mc/MC_DecFloat_quick.cfg", cfg_thorough="mc/MC_DecFloat_thorough.cfg",
                     xmx="8g", timeout=2400),
    "overflow": dict(module="mc/MC_Overflow.tla", cfg_quick="mc/MC_Overflow_quick.cfg",
                     cfg_thorough="mc/MC_Overflow_thorough.cfg", xmx="8g", timeout=2400),
}

# ---------------------------------------------------------------------------------------------
# per-property checks

TRUSTED = ("trusted: TLC, the BigInt module (self-tested against Python big integers), the recorder's encoding of values "
           "(raw representations are read back from the objects), UBSan trap mode for UB observation")


def chk(families, mcs, rule, technique, level_text, level_note, assumptions=()):
    return dict(families=families, mcs=mcs, rule=rule, technique=technique, level_text=level_text,
                level_note=level_note + "; " + TRUSTED, assumptions=list(assumptions) or [TRUSTED])


SCALED_RULE = ("events = one operator/conversion of the real templates on a pair of number types from the TLC-enumerated "
               "instantiation lattice (GenLattice: reps 8..64 bit x exponents -70..70 x radix 2/10, fixed core + VERIF_SEED "
               "sample; plus elastic/overflow/rounding/128-bit reps) x operand values (TLC boundary sets + extremes of the "
               "type + seeded random); ")
SCALED_TECH = ("TLA+ spec (CnlTypes + SemScaled: value = raw x radix^exponent over unbounded integers, C++ promotion rules "
               "from CxxInt) evaluated by TLC on every recorded event (trace validation); lattice of instantiations "
               "enumerated by TLC from the spec's admissibility rule")

CHECKS = {
    "C01": chk(["scaled"], [],
               SCALED_RULE + "non-trivial = operands of different exponent or non-zero result, inside the property's domain "
               "(aligned operands fit their promoted rep, exact result fits the result rep)",
               SCALED_TECH,
               "TLC recomputes every sum, difference, product and negation exactly from the logged raw operands and checks the "
               "logged raw result, the result exponent (min / sum rule), radix and promoted rep type of the deduced result type.",
               "bounded: sampled lattice (quick) / 330-row lattice sample (thorough), boundary-directed operands; events outside "
               "the stated domain are counted as skipped, never rejected"),
    "C02": chk(["scaled"], [],
               SCALED_RULE + "non-trivial = non-zero remainder",
               SCALED_TECH,
               "a/b and a%b are checked against the C++ semantics of the rep operator (CxxInt; truncated division over unbounded "
               "integers for wrapper reps), result exponents exp(a)-exp(b) and exp(a); the identity (a/b)*b + a%b == a is "
               "evaluated by the library itself and must be true wherever the spec says division is defined.",
               "quotient(a,b) is judged for radix-2 scaled_integer pairs: value = true quotient truncated toward zero at the result exponent, and the result type must hold the widest possible quotient (|a| maximal, |b| = 1 unit); zero divisors and MIN/-1 are excluded as the property states"),
    "C03": chk(["scaled", "wide"], [],
               SCALED_RULE + "all six comparison results are recorded per pair; non-trivial = different exponents or mixed "
               "signedness; plus the comparison events of the wide family (wide_integer against wide_integer and against "
               "built-in integers on either side)",
               SCALED_TECH,
               "the six logged results must equal the order of the denoted values (wrapper reps, elastic_integer pairs of "
               "different width/signedness) or, for built-in reps, the built-in comparison of the exponent-aligned reps after "
               "the usual arithmetic conversions (the statement's carve-out), under the alignment-fits guard.",
               "wide_integer comparisons are judged with the wide family (C10)"),
    "C04": chk(["scaled"], ["decfloat"],
               SCALED_RULE + "conversions scaled<->scaled, <->built-in integers, <->float/double/long double (radix 2, 10 and 3; "
               "exponents at the widths and digit counts of the built-in integers), from_rep/to_rep and wrap/unwrap round trips; "
               "non-trivial = resolution changes / significand longer than the float's / any non-binary float conversion",
               SCALED_TECH + "; IEEE round-to-nearest-even and exact dyadic truncation defined in CnlTypes; exact rational rounding / "
               "truncation for non-binary radices; deviations bound to the as-coded models (Judge.AsCoded scaling rule, "
               "alg/AsCodedDecFloat); design-level model check MC_DecFloat (the as-coded decimal conversions on a small machine)",
               "exact value when representable, truncation toward zero otherwise, RNE for integer->floating (floats are logged "
               "exactly as sign/mantissa/exponent), identity for the round trips; MC_DecFloat proves for every value of a 6-bit "
               "(8-bit thorough) representation, 5-bit (7-bit) floats and radices 10 / 3 (/ 7) that the as-coded non-binary "
               "conversions stay within one unit in the last place / one representation unit of the exact result.",
               "NaN/inf not generated; source values outside the destination range are skipped; non-binary float conversions whose "
               "result would be subnormal or near the overflow threshold are skipped"),
    "C08": chk(["rounding"], ["rounding"],
               "events = a / b under a rounding tag via operate<divide_op,Tag> and rounding_integer<Rep,Tag>, operand types "
               "8..64 bit of both signedness (quick: four divisor types per dividend type), dividends directed at ties and "
               "near-ties k*b +/- floor(b/2) +/- {0,1} + TLC boundary sets; +,-,*,% under a rounding tag; non-trivial = "
               "non-zero remainder",
               "TLA+ spec (SemRounding.RoundQ ideal rounding over unbounded integers; AsCodedRounding as-coded formulas "
               "through CxxInt) checked by TLC: trace validation of recorded executions + exhaustive small-machine model "
               "check MC_Rounding",
               "TLC recomputes the exact rational a/b rounded per mode for every recorded division and compares with the "
               "logged quotient; other operators must equal the built-in ones (CxxInt); rejected events must equal the as-coded "
               "model to count as the listed known finding; MC_Rounding proves on a scaled-down machine that the formulas only "
               "deviate where the bias leaves the promoted type.",
               "mixed-signedness operand pairs are judged only where the usual conversions leave both values unchanged "
               "(reading decision, DESIGN 6.0)"),
    "C09": chk(["rounding"], ["rconv"],
               "events = convert<RoundingTag, Dest>(src) for float/double/long double sources (ties k+0.5, quarter points and "
               "both floating neighbours of each, scaled to the destination unit) into 8..64-bit integers and scaled_integers, "
               "and finer -> coarser scaled_integer (radix 2 and 10; every residue for small values, boundary sets, random); "
               "non-trivial = digits are lost",
               "TLA+ spec (SemRounding: exact dyadic/decimal source value, RoundQ per mode) evaluated by TLC on every recorded "
               "conversion (trace validation); floats logged exactly as sign/mantissa/exponent; design level: MC_RConv runs the "
               "as-coded conversion model (alg/AsCodedRConv) through the same judge on a scaled-down machine (4/5-bit significands, "
               "6-bit integers, every source value and mode) and proves that it deviates from correct rounding only in the "
               "listed classes",
               "the logged destination representation must be the multiple of the destination resolution selected by the mode "
               "from the exact source value, for every source whose rounded result is representable.",
               "conversion forms that do not compile in the library (scaled -> plain integer under nearest, non-narrowing "
               "scaled -> scaled under nearest) are not exercised; rounding_integer<Int, Tag>{floating} is recorded next to "
               "convert<>; every rejected event must equal alg/AsCodedRConv.tla (bias added in floating point, floor via the "
               "cast round trip, binary shift for decimal scales) to count as one of the listed findings"),
    "C05": chk(["elastic"], ["elastic"],
               "events = +,-,*,/,%,unary -, << / >> by a constant, the six comparisons (by value, also against built-in operands), "
               "scale<-K>, numeric_limits on pairs of elastic_integer types from the "
               "TLC-enumerated lattice (GenElastic: digits 1..64 x signedness x narrowest 8/32/64 bit, fixed core + VERIF_SEED "
               "sample) x in-range operand values (extremes +-(2^D-1), TLC boundary sets, random); non-trivial = an operand "
               "uses all its digits or does not survive the cast to the operation's representation",
               "TLA+ spec (SemElastic: policy digit rules, exact result, symmetric declared range; as-coded evaluation in "
               "result_tag::rep through CxxInt) checked by TLC: trace validation of recorded executions + exhaustive "
               "small-machine model check MC_Elastic",
               "every recorded result must be the exact mathematical result and lie in the range the result type declares "
               "(numeric_limits == +-(2^D - 1) is checked per type); MC_Elastic proves on a scaled-down machine, for all digit "
               "pairs <= 5 (7 thorough) and all operand values, that the as-coded evaluation is exact except for / and % with a "
               "narrowed operand; recorded deviations must equal the as-coded model to count as the known finding.",
               "comparisons of elastic types are judged under C03; elastic_scaled_integer arithmetic under C01/C02 (values) "
               "with elastic reps; storage wider than 128 bits (wide_integer narrowest) not exercised here"),
    "C10": chk(["wide"], [],
               "events = every operator (+,-,*,/,%,&,|,^, unary -, ++/--, << / >> by 0..N-1 incl. limb multiples, the six "
               "comparisons), conversions to/from 64/32-bit integers and double, numeric_limits and decimal stream output of "
               "wide_integer<D, Narrowest> for D in {129,130,160,192,200,255,256,500,1000} (2048 in thorough), signed and "
               "unsigned, limb types 8/16/32/64 bit; operands: limb-structured patterns (all-ones limbs, single bits at word "
               "edges, 0x8000../0x7fff.. tops, (B^k-1)/(B-1) repunits, alternating, neighbours of 53-bit rounding ties) + seeded random with random limb sparsity; "
               "multi-limb values are sliced from crepresentation() by the recorder; non-trivial = operand wider than 64 bits",
               "TLA+ spec (SemWide: mathematical integers reduced to the N-bit two's-complement range with BigInt.Wrap, "
               "truncated division, arithmetic right shift, either neighbouring double, canonical decimal numeral) evaluated by TLC on every "
               "recorded event (trace validation)",
               "each result must equal integer arithmetic modulo 2^N for the storage width N of the multi-limb representation; "
               "the same patterns run through 8/16/32/64-bit limb types, so a limb-split dependence shows up as a rejection; the "
               "storage must have room for the declared digits plus the sign.",
               "operator~ and mixed-width operators do not compile for multi-limb wide_integer and are not exercised; the "
               "number of operand pairs per type is bounded (BigInt judging of 2048-bit quotients is slow); comparisons of "
               "wide_integer (C03's clause) are judged here"),
    "C11": chk(["static"], [],
               "events = steps of TLC-simulated programs (gen/GenPrograms: 7 steps over a register file of 4 typed numbers drawn "
               "from the action alphabet Load / d := a op b / d op= a / d := -a / construction from a built-in integer / "
               "construction from a double / the six comparisons / conversion to double; -seed VERIF_SEED, de-duplicated, 1500 "
               "programs quick / 40000 thorough) executed by an interpreter on real static_number / static_integer objects for 5 "
               "type menus (nearest+saturated, nearest+throwing, neg_inf+trapping static_numbers with digits 4..100 and exponents "
               "-50..6; tie_to_pos_inf+saturated static_integers with int8 narrowest; nearest+saturated static_integers whose "
               "sums and products have 64/96/128/192 digits, i.e. exact multiples of the limb width); the whole register file is "
               "logged after every step",
               "TLA+ state machine (CnlMachine: register file, actions Reset / Load / Step / FromInt / FromFloat / Cmp / ToFloat, "
               "expected result = exact operator result or source value, rounding conversion by the destination's mode, overflow "
               "reaction by its tag, comparisons by value) and action-by-action trace "
               "validation by TLC (JudgeMachine carries the register file from line to line; a step must start from the state "
               "the spec computed, may change only its destination, and must store the expected value or signal overflow)",
               "histories of operations feeding each other: no step may produce a different value without an overflow signal, "
               "throw/trap must leave the destination untouched, no other register may change.",
               "mixed narrowest types / mixed tags within one expression do not compile in the library and are not exercised; "
               "conversions of a register to built-in integers are covered by the C04/C09 families only; rejected constructions "
               "from integers must equal JudgeMachine.AsCodedM (truncation / scaling in the 64-bit source type) to count as the "
               "two listed findings"),
    "C12": chk(["native", "overflow"], [],
               "events = wrapper expression next to the bare built-in expression for wrapper nestings {scaled<_,0>, "
               "overflow_integer<_,native>, rounding_integer<_,native>, scaled<overflow<rounding>>, overflow<rounding>} x "
               "operators {+,-,*,/,%,&,|,^,<<,>>, six comparisons, unary -, +=,-=,*=,/=, ++/-- pre and post} x 8..64-bit operand "
               "type pairs (quick: a rotating third of (nesting, lhs type)), 8-bit operands from the full TLC boundary set "
               "(exhaustive in thorough), wider: TLC boundary sets + random; the documented kernels (multiply-widen, square, "
               "average, mixed-exponent add) next to hand-written integer code; native_overflow_tag events of the overflow "
               "family; non-trivial = result that does not fit int / mixed signedness",
               "TLA+ spec (SemNative over CxxInt: C++ promotion, usual arithmetic conversions, modular/UB semantics) is the "
               "oracle for both the wrapper and the bare expression; TLC evaluates it on every recorded event (trace validation)",
               "wrapper value and promoted result representation must equal what CxxInt says the bare expression yields (and the "
               "compiler's bare result must agree with CxxInt, which also validates the oracle); compound assignment = binary "
               "operator then conversion to the left type; ++/-- = +/- 1.",
               "not covered: all 2^64 operand pairs per kernel and equivalence of the compiled IR (explicit-state checking "
               "cannot enumerate them); inputs on which the bare expression is undefined are skipped"),
    "C13": chk(["text"], ["tochars"],
               "events = cnl::to_chars(first, first+cap, v) for scaled_integer (radix 2/3/8/10, exponents -70..70, reps 8..64 "
               "bit, core list + VERIF_SEED sample) and integers (8..128 bit, elastic, signed wide_integer<130/200/256>; bases 2/8/10/16/36) x all values of 8-bit "
               "reps (16-bit in thorough), boundary/random values of wider reps x buffer lengths 0..capacity+2; the buffer ends "
               "at a PROT_NONE page and is preceded by 64 canary bytes, each call runs twice with different fill patterns; plus "
               "to_chars_static / to_string / operator<< per value; 0.3 s watchdog; non-trivial = short buffer or negative value",
               "TLA+ spec (SemText.BufferDiag: result shape, failure shape, no write outside [first,p)) evaluated by TLC on "
               "every recorded call (trace validation); out-of-buffer writes are observed by a guard page and canaries",
               "on success first < p <= last, errc{} and exactly [first,p) written; on failure value_too_large with p == last; no "
               "byte outside [first,last) touched; no trap, assertion or hang; static variants always succeed and print the "
               "same text.",
               "reads outside the buffer are not observed; MC_ToChars model-checks the as-coded layout solver (solve_fixed, "
               "solve_scientific, the choice, both fill routines) for every (significand digits <= 19, decimal exponent, "
               "capacity) in a box: unless one of the source's own assertions fails, no write leaves the buffer"),
    "C14": chk(["text"], [],
               "same recorded calls as C13 (those that succeeded); the bytes are tokenised as -?d*(.d*)?(e-?d+)? (scaled) or a "
               "numeral in the requested base (integers); non-trivial = short buffer or negative value",
               "TLA+ spec (SemText: tokeniser, Horner evaluation, comparison of text and value by cross-multiplying powers of "
               "10 and of the radix over unbounded integers) evaluated by TLC on every recorded text (trace validation)",
               "integers: canonical numeral of exactly the value; scaled_integer: same sign, text <= |value|, |value| - text < "
               "one unit of the last printed digit + (|e|+2)e-18*|value| (64-bit significand limit, reading decision), exact "
               "when the expansion has <= 18 significant digits and the buffer has the static capacity; to_string, "
               "to_chars_static and operator<< equal to_chars.",
               "exactness is only demanded at full capacity (deciding 'fits the buffer' for shorter buffers is not modelled)"),
    "C15": dict(chk(["parse", "fraction"], [],
               "events = (a) run-time cnl::_impl::parse<T>(token), T = int64 / wide_integer<200> / wide_integer<1000>, tokens of "
               "every length up to two accumulation chunks + 2 per base (18 dec / 15 hex / 21 oct / 63 bin digits per chunk), "
               "leading digit in {1, base/2-1, base/2, base-1}, fills {0.., max.., alternating, random}, +/- sign, separators at "
               "chunk edges; (b) compile-time literals _c, _cnl, _cnl2, _wide in generated translation units (the program "
               "under test contains the tokens; lengths around every chunk boundary, VERIF_SEED-chosen digits); (c) "
               "make_elastic_integer / make_elastic_scaled_integer / make_static_integer / make_static_number / "
               "make_scaled_integer from constants (boundary-rich set) and from run-time values; class template argument "
               "deduction through the library's deduction guides (cnl::fraction{x} for float / double / long double x: every "
               "2^k, 2^k +- 1 up to the significand width, random integral values of every bit length, small ratios; "
               "cnl::fraction{n} and cnl::fraction{n, d} for 8..128-bit integers); non-trivial = all",
               "TLA+ spec (SemParse: tokeniser with base prefixes and separators, Horner value in unbounded integers, "
               "used-digits / trailing-zeros rules for deduced types; SemFraction.JudgeFrCtad for deduction guides) evaluated by "
               "TLC on every recorded event (trace validation)",
               "parse and literals must yield exactly the token's value in a type wide enough; _cnl/_cnl2 significand x "
               "radix^exponent equals the decimal token exactly with no factor of the radix left in the significand; factories "
               "hold the initializer exactly with digits = used digits and exponent = trailing zero bits for constants; a "
               "fraction deduced from a floating-point value has signed components with at least the format's significand digits "
               "and holds every integral initializer exactly.",
               "class template argument deduction is judged for the deduction guides the library has (fraction); it has none for "
               "constants (scaled_integer{v} is the default specialisation's converting constructor); tokens whose value does "
               "not fit the run-time target type are skipped"), extra=parse_extra),
    "C20": chk(["math"], [],
               "events = cnl::exp2(x) for scaled_integer<Rep, power<E>>, Rep in {int8, uint8} (all values), {int16, uint16} "
               "(every 7th value quick / all thorough), {int32, uint32} (every 2^22-th value quick / 2^16-th thorough + TLC "
               "boundary sets + random), every exponent E = -1 .. -(digits-1); std::numbers constants (e, log2e, log10e, pi, "
               "inv_pi, inv_sqrtpi, ln2, ln10, sqrt2, sqrt3, inv_sqrt3, egamma, phi) for every (Rep, E) with 8..64-bit reps that "
               "can hold the integer part; non-trivial = non-integral x / every constant",
               "TLA+ spec (SemMath) evaluated by TLC on every recorded event: 2^frac(x) is enclosed by products of table "
               "entries L_i <= 2^(2^-i) * 2^80 <= U_i which TLC certifies itself at start-up (ASSUME: L_(i+1)^2 <= L_i 2^80, "
               "U_(i+1)^2 >= U_i 2^80); constants from a literal table floor(C 2^80) (sympy-generated, re-checked by setup; the "
               "algebraic ones certified by ASSUME)",
               "the logged exp2 representation must be within 1 of some integer in the enclosure of floor(2^x / 2^E) (exact "
               "for integral x when representable); each constant within one unit of the last place.",
               "the enclosure is ~2^-70 wide, so on a vanishing set of inputs the check errs towards acceptance; trusted: the "
               "13 literal constants (cross-checked against sympy at setup); rejected exp2 events must equal alg/AsCodedExp2.tla (the "
               "all-fraction Horner pipeline with the header's coefficients) to count as the listed finding"),
    "C16": chk(["fraction"], [],
               "events = +,-,*,/ , unary -/+, the six comparisons, reduce, canonical, std::hash on pairs (n,d)/(k*n,k*d), and "
               "explicit conversion to float/double on cnl::fraction<T>, T = int8..int64; unary operations over every 8-bit "
               "fraction (quick: every 11th), binary over a strided product of TLC boundary components with both denominator "
               "signs (thorough: all 4-bit-magnitude pairs); non-trivial = a negative denominator, a common factor, equal "
               "fractions with different components",
               "TLA+ spec (SemFraction: cross-multiplication over unbounded integers, Euclid's gcd, rational "
               "round-to-nearest-even with a sticky bit) evaluated by TLC on every recorded event (trace validation)",
               "results must denote the exact rational, comparisons the rational order whatever the denominator signs, "
               "reduce/canonical preserve the value with gcd 1 (and d > 0), equal fractions hash equally, conversion to "
               "floating point is RNE(n)/RNE(d) correctly rounded.",
               "arithmetic is judged only where all cross products fit the promoted component type (the property's domain)"),
    "C17": chk(["fraction"], [],
               "events = cnl::make_fraction<T>(x) for float/double/long double x within the numerator range of T "
               "(int8..int64): exponent x coarse-mantissa lattice, small integers and k/8, k/10, k/3, -k/7, values near the "
               "numerator limit, seeded random mantissas; 2 s watchdog per call",
               "TLA+ spec (SemFraction.JudgeFrFromFloat: sign, positive denominator, component ranges, exactness, adjacency "
               "and the max(1,|x|)*2^(4-D) bound by cross-multiplying unbounded integers with the exactly logged float) "
               "evaluated by TLC on every recorded call (trace validation)",
               "termination (no watchdog event), d > 0, sign, range, exact-or-close as the property states.",
               "reading decision: 'equals the input' is accepted exactly or as a floating-point value of the input's format "
               "(the library's own exit test); rejected events must equal alg/AsCodedMakeFraction.tla -- the mediant search with its jump "
               "acceleration transcribed statement by statement, floating point rounded per operation, integers through CxxInt -- "
               "to count as one of the two listed findings"),
    "C18": chk(["bits"], [],
               "events = one value of an unsigned (countl_zero ... log2p1, rotl/rotr for every count 0..2W) or signed "
               "(countl_rsb, countl_rb, countr_used, used_digits, leading_bits, trailing_bits) integer type; 8-bit and "
               "unsigned 16-bit types exhaustive (signed 16-bit in thorough), 32/64/128-bit TLC boundary sets (every 2^k, "
               "2^k+-1) + seeded random; non-trivial = 0, all-ones, powers of two and their neighbours, rotation counts that "
               "are multiples of the width",
               "TLA+ spec (SemBits: C++20 <bit> definitions from bit length / residues of unbounded integers) evaluated by TLC "
               "on every recorded event (trace validation); three builds: g++ intrinsics, clang++, g++ generic definitions",
               "every function result of every recorded value must equal the definition; any UBSan trap (intrinsic on zero, "
               "full-width shift) is a rejected outcome.",
               "32-bit exhaustive (2^32 values per function) is beyond an explicit-state checker; ceil2 is judged only "
               "where the result is representable (as std::bit_ceil)"),
    "C19": chk(["sqrt"], ["sqrt"],
               "events = cnl::sqrt(x) for every non-negative value of the 8/16-bit types (exhaustive) and, for 32/64/128-bit, "
               "elastic_integer and scaled_integer (even exponents) types: perfect squares and their two neighbours (roots "
               "from a fixed list + seeded random), every 2^k and 2^k-1, the largest values, random values; 2 s watchdog; "
               "non-trivial = perfect squares, their predecessors, values with the top digits set",
               "TLA+/PlusCal as-coded model of the digit-by-digit loop (alg/SqrtAlg, --fair) model-checked by TLC for all "
               "inputs of W digits (floor-sqrt invariant, no intermediate above max, termination as a temporal property) + "
               "trace validation of recorded executions against the contract r^2 <= x < (r+1)^2 over unbounded integers",
               "the logged root is checked (not recomputed) against the floor-sqrt contract, the elastic digit rule (D+1)/2 and "
               "the halved exponent; SqrtAlg proves the loop correct and terminating for every input of 12 (16 thorough) digits.",
               "32-bit exhaustive sweeps are out of reach; wide_integer (multi-limb) sqrt is not exercised"),
    "C06": chk(["overflow"], ["overflow"],
               "events = one tagged operation (operate<Op,Tag>, overflow_integer operators, convert<Tag,Dest>) on a pair of "
               "built-in integer types x operand values (8-bit lhs exhaustive x TLC boundary set; wider: TLC boundary set^2 + "
               "seeded random); non-trivial = exact result within 2 of a bound of the result type, or outside it",
               "TLA+ spec (SemOverflow ideal semantics + AsCodedOverflow as-coded model) checked by TLC: trace validation of "
               "recorded executions of the real templates + exhaustive small-machine model check (MC_Overflow)",
               "TLC evaluates the ideal overflow semantics (exact result vs. range of op_result, reaction per tag) on every "
               "recorded event of the real tagged operators for all 10x10 built-in type pairs, both detection paths, g++ and "
               "clang++; rejected events must additionally equal the as-coded model to count as the listed known findings. "
               "MC_Overflow proves on a scaled-down machine that the as-coded detection has no deviation outside those classes.",
               "bounded: 8-bit operands exhaustive (thorough), wider operands boundary^2 + seeded random; floating-point "
               "sources (float/double/long double -> every integer type) around both range bounds, with the ambiguity band "
               "max < x < max+1 accepted either way",
               ["UBSan trap mode observes every UB the sanitizer knows; other UB is not observed",
                "trapping is observed in-process through the JOHNMCFARLANE_CNL_VERIF abort hook"]),
    "C07": chk(["overflow"], ["overflow"],
               "same recorded events as C06; judged for totality: outcome class ub:<signal> / unreachable / timeout is never "
               "allowed under a checked tag; non-trivial = operands at the extremes or result near/outside the range",
               "TLA+ spec checked by TLC: CxxInt models every C++ sub-expression of the overflow predicates with an explicit UB "
               "outcome (MC_Overflow, exhaustive small machine); trace validation of recorded executions (UBSan trap + "
               "abort/unreachable hook) rejects any ub/unreachable outcome the spec does not allow",
               "every recorded checked operation must end in a value or an overflow signal; outcome classes ub:<signal>, "
               "unreachable and timeout are rejected by the judge (the spec has no such action). The as-coded model evaluates "
               "each predicate sub-expression through CxxInt so UB inside the checker is a reachable model outcome; the model "
               "and the recorded executions agree event by event.",
               "dynamic observation only (no IR-level reachability); UB kinds limited to what -fsanitize=undefined traps; "
               "bounds as C06",
               ["UB is observed through -fsanitize=undefined in trap mode (g++-12 and clang++-14); UB the sanitizer "
                "has no check for, and reachability in the compiled IR, are not observed"]),
}


def run_replay(prop, replay):
    """re-records the family from the current tree with the replay's seed and tier, re-judges it and reports the
    rejected events of the same (diagnosis, class) next to the recorded ones; exit 1 if the rejection reproduces"""
    with open(replay) as f:
        rp = json.load(f)
    meta = rp.get("meta", {})
    os.environ["VERIF_SEED"] = str(meta.get("seed", vlib.seed()))
    tier = meta.get("tier", "quick")
    os.environ["VERIF_TIER"] = tier
    chk = CHECKS[rp.get("property", prop)]
    want = (meta.get("diag"), meta.get("cls"))
    hits = []
    for fname in chk["families"]:
        r = family_result(fname, tier)
        hits += [b for b in r.bad if (b["diag"], b["cls"]) == want]
    keys = set(json.dumps(b["event"], sort_keys=True) for b in rp.get("rejected", []))
    same = [b for b in hits if json.dumps(b["event"], sort_keys=True) in keys]
    print("replay %s: diagnosis=%s class=%s recorded=%d  reproduced now: %d events of that class (%d identical to recorded ones)" % (
        os.path.basename(replay), want[0], want[1], len(rp.get("rejected", [])), len(hits), len(same)))
    for b in (same or hits)[:10]:
        print("  " + brief(b))
    if hits:
        print("VIOLATION property=%s replay=%s" % (rp.get("property", prop), replay))
        return 1
    return 0


def run_check(prop, tier, replay, t0):
    if replay:
        return run_replay(prop, replay)
    chk = CHECKS[prop]
    known = vlib.load_known()
    bads = []
    total = vlib.JudgeResult()
    design = []
    for m in chk.get("mcs", []):
        design.append(mc_result(MCS[m], tier))
    mine = [0, 0, 0, set()]      # this property's share: events, ok, skipped, distinct non-trivial
    for fname in chk["families"]:
        r = family_result(fname, tier)
        total.merge(r)
        attr = FAMILIES[fname]["attr"]
        for (kind, op, tag), v in r.kinds.items():
            if prop in attr(kind, op, tag, None):
                mine[0] += v[0]
                mine[1] += v[1]
                mine[2] += v[2]
                mine[3] |= v[3]
        for b in r.bad:
            i = b.get("inst") or {}
            if prop in attr(i.get("kind", "?"), i.get("op", "?"), i.get("tag", ""), b["diag"]):
                bads.append(b)
        total.samples = [x for x in r.samples
                         if prop in attr((x.get("inst") or {}).get("kind", "?"), (x.get("inst") or {}).get("op", "?"),
                                         (x.get("inst") or {}).get("tag", ""), None)] + total.samples
    if "extra" in chk:
        chk["extra"](prop, tier, total, bads, design)
    matched, unmatched = vlib.match_known(prop, bads, known)
    for k in known:
        if k.get("status") == "open" and k["property"] == prop and k["id"] in matched:
            print("KNOWN-FINDING: property=%s %s [%d recorded events; e.g. %s]" % (
                prop, k["what"], len(matched[k["id"]]), brief(matched[k["id"]][0])))
    rc = 0
    nviol = 0
    if unmatched:
        # group by (diag, cls) and write one replay per group
        groups = collections.OrderedDict()
        for b in unmatched:
            groups.setdefault((b["diag"], b["ac"], b["cls"]), []).append(b)
        for (diag, ac, cls), bs in groups.items():
            p = vlib.write_replay(prop, bs[:20], dict(diag=diag, ac=ac, cls=cls, count=len(bs), tier=tier, seed=vlib.seed()))
            print("VIOLATION property=%s replay=%s" % (prop, p))
            print("  diagnosis=%s (%s) class=%s events=%d first: %s" % (diag, ac, cls, len(bs), brief(bs[0])))
            nviol += 1
        rc = 1
    dstates = sum(d["states"] for d in design)
    ddist = sum(d["distinct"] for d in design)
    by_kind = {k: dict(events=v[0], ok=v[1], skipped_out_of_domain=v[2], rejected=v[0] - v[1] - v[2])
               for k, v in sorted(getattr(total, "by_event", {}).items())}
    cov = dict(
        family_by_event_kind=by_kind,
        states=max(1, total.distinct + ddist), transitions=max(1, total.states + dstates),
        traces_validated_against_impl=total.traces,
        evaluations=mine[0], distinct_nontrivial=len(mine[3]), rule=chk["rule"],
        family_events_judged=total.events,
        samples=(total.samples[:5] + [dict(design=d["module"], cfg=d["cfg"]) for d in design[:2]]) or ["none"],
        judged_ok=mine[1], skipped_out_of_domain=mine[2], family_by_diagnosis=total.by_diag,
        rejected_for_this_property=len(bads), rejected_matching_known_findings=len(bads) - len(unmatched),
        design_states=dstates, design_runs=design, judge_states=total.states,
        exhaustive=False, recorders=getattr(total, "recorders", []),
        tools=dict(tlc="TLC2 2026.09.04 (tla2tools 1.8.0)", gcc="g++-12", clang="clang++-14"))
    vlib.write_evidence(prop, tier, cov, time.time() - t0, nviol, chk["assumptions"])
    log("[%s] %s: events=%d (family %d) nontrivial=%d rejected(here)=%d unlisted=%d wall=%.1fs" % (
        prop, tier, mine[0], total.events, len(mine[3]), len(bads), len(unmatched), time.time() - t0))
    return rc


def dec(v):
    if isinstance(v, dict) and "m" in v and "e" in v:
        return "%s%d*2^%d" % ("-" if v.get("n") else "", dec(v["m"]), v["e"]) if v.get("c", "fin") == "fin" else v.get("c")
    if not isinstance(v, list):
        return v
    if v and isinstance(v[0], list):
        return [dec(x) for x in v]
    m = 0
    for x in reversed(v[1:]):
        m = (m << 15) | x
    return -m if v[0] else m


def brief(b):
    e = b["event"]
    i = b.get("inst") or {}
    parts = [e.get("e", "?")]
    for k in ("op", "tag", "path", "api"):
        if k in i:
            parts.append("%s=%s" % (k, i[k]))
    for k in ("lt", "rt"):
        if k in i and isinstance(i[k], dict) and "w" in i[k]:
            parts.append("%s=%s%d" % (k, "i" if i[k].get("s") else "u", i[k]["w"]))
    for k in ("l", "r", "x", "res"):
        if k in e:
            parts.append("%s=%s" % (k, dec(e[k])))
    if "out" in e:
        parts.append("out=" + str(e["out"]))
    parts.append("cc=" + str(e.get("cc")))
    parts.append("diag=" + b["diag"])
    return " ".join(parts)
