#!/bin/sh
cd /verif
for p in C18 C19 C15 C10 C11 C20 C13 C14 C05 C01 C02 C03 C04 C08 C09 C16 C17 C06 C07 C12; do
  echo "=== $p $(date +%H:%M:%S)"
  tools/vcheck $p --tier thorough 2>&1 | grep -vE "^KNOWN-FINDING" | tail -6 | cut -c1-300
  echo "rc=$?"
done
echo THOROUGHDONE
