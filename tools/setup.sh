#!/bin/sh
# MANIFEST.setup_cmd: offline; checks the tools, parses every TLA+ module, pre-generates the
# TLC-emitted stimuli (cached under /verif/build by spec hash).  Nothing is fetched.
set -e
cd "$(dirname "$0")/.."
mkdir -p build evidence
for t in java g++ clang++-14 python3; do command -v $t >/dev/null || { echo "missing tool: $t"; exit 1; }; done
test -f /opt/veriftools/tla/tla2tools.jar
fail=0
for f in spec/*.tla spec/alg/*.tla spec/mc/*.tla spec/gen/*.tla; do
  [ -f "$f" ] || continue
  if ! java -DTLA-Library=/verif/spec:/verif/spec/alg -cp /opt/veriftools/tla/tla2tools.jar:/opt/veriftools/tla/CommunityModules-deps.jar tla2sany.SANY "$f" >build/sany.log 2>&1; then
    echo "SANY failed: $f"; tail -20 build/sany.log; fail=1
  fi
done
[ $fail = 0 ] || exit 1
python3 - <<'PY'
import sys
sys.path.insert(0, 'tools')
import vlib
print('values:', vlib.gen_values())
PY
echo setup ok
