// Recorder for wide_integer beyond the widest built-in integer (C10): every operator on structured
// multi-limb operands, for several widths, signedness and limb types (selected by WIDE_SET).
#include "describe.hpp"

#include <sstream>

using namespace vf;

template<class W>
W from_words(std::vector<std::uint64_t> const& w)
{
    using Rep = cnl::_impl::rep_of_t<W>;
    Rep r{0U};
    for (std::size_t i = w.size(); i-- > 0;) {
        r = static_cast<Rep>(static_cast<Rep>(r << 64) | Rep{w[i]});
    }
    return cnl::_impl::from_rep<W>(r);
}

// structured operand patterns over nw 64-bit words (stimuli only; the value read back from the object is logged)
inline std::vector<std::vector<std::uint64_t>> patterns(std::size_t nw, std::uint64_t salt, int nrand)
{
    std::vector<std::vector<std::uint64_t>> v;
    auto fill = [&](std::uint64_t x) { return std::vector<std::uint64_t>(nw, x); };
    v.push_back(fill(0));
    v.push_back(fill(~0ULL));
    {
        auto a = fill(0);
        a[0] = 1;
        v.push_back(a);
        a[0] = 2;
        v.push_back(a);
        a[0] = ~0ULL;
        v.push_back(a);      // low word all ones
    }
    {
        auto a = fill(~0ULL);
        a[nw - 1] = 0x7FFFFFFFFFFFFFFFULL;
        v.push_back(a);      // max signed
        a = fill(0);
        a[nw - 1] = 0x8000000000000000ULL;
        v.push_back(a);      // min signed
        a[0] = 1;
        v.push_back(a);
    }
    v.push_back(fill(0x5555555555555555ULL));
    v.push_back(fill(0xAAAAAAAAAAAAAAAAULL));
    v.push_back(fill(0x0001000100010001ULL));      // (B^k-1)/(B-1) for 16-bit limbs
    v.push_back(fill(0x0000000100000001ULL));
    v.push_back(fill(0x0101010101010101ULL));
    v.push_back(fill(0x00000000FFFFFFFFULL));
    v.push_back(fill(0xFFFFFFFF00000000ULL));
    v.push_back(fill(0x8000000080000000ULL));
    v.push_back(fill(0x7FFFFFFF7FFFFFFFULL));
    for (std::size_t k = 0; k < nw; ++k) {
        auto a = fill(0);
        a[k] = 1;
        v.push_back(a);      // single bit at every word edge
        a[k] = 0x8000000000000000ULL;
        v.push_back(a);
        auto b = fill(0);
        for (std::size_t j = 0; j <= k; ++j) {
            b[j] = ~0ULL;
        }
        v.push_back(b);      // 2^(64(k+1)) - 1
    }
    // next to a rounding tie of a 53-bit significand (conversion to double): exactly on it, just above, just below,
    // with the kept least significant bit clear and set
    for (std::size_t k = 0; k < nw; ++k) {
        for (std::uint64_t lsb : {0ULL, 1ULL << 8}) {
            auto a = fill(0);
            a[k] = (1ULL << 60) | lsb | (1ULL << 7);
            v.push_back(a);      // tie
            if (k > 0) {
                a[0] = 1;
                v.push_back(a);      // just above
                auto b = fill(0);
                for (std::size_t j = 0; j < k; ++j) {
                    b[j] = ~0ULL;
                }
                b[k] = (1ULL << 60) | lsb | ((1ULL << 7) - 1);
                v.push_back(b);      // just below
            }
        }
    }
    rng r(salt);
    for (int k = 0; k < nrand; ++k) {
        auto a = fill(0);
        std::size_t used = 1 + r.g() % nw;
        for (std::size_t j = 0; j < used; ++j) {
            std::uint64_t m = r.g();
            switch (r.g() % 4) {
            case 0: m = 0; break;
            case 1: m = ~0ULL; break;
            default: break;
            }
            a[j] = m;
        }
        v.push_back(a);
    }
    return v;
}

template<class W>
std::string wdesc()
{
    return desc<W>();
}

template<class W>
void wide_all(sink& out, std::uint64_t salt)
{
    using Rep = cnl::_impl::rep_of_t<W>;
    constexpr std::size_t bits = static_cast<std::size_t>(cnl::digits_v<Rep> + (cnl::numbers::signedness_v<Rep> ? 1 : 0));
    constexpr std::size_t nw = (bits + 63) / 64;
    auto pats = patterns(nw, salt, thorough() ? 60 : 6);
    std::vector<W> vs;
    for (auto const& p : pats) {
        vs.push_back(from_words<W>(p));
    }
    if (bits >= 1000) {
        // BigInt judging of 1000..2048-bit operands costs ~0.2 s per division or shift event: keep at most ~120 values
        std::vector<W> few;
        std::size_t step = (vs.size() + 119) / 120;
        for (std::size_t k = 0; k < vs.size(); k += step) {
            few.push_back(vs[k]);
        }
        vs.swap(few);
    }
    auto T = wdesc<W>();
    using namespace cnl::_impl;
    char const* names[8] = {"add", "sub", "mul", "div", "mod", "and", "or", "xor"};
    int ids[8];
    for (int k = 0; k < 8; ++k) {
        ids[k] = add_inst(out, ev("Inst").str("kind", "WBin").str("op", names[k]).raw("lt", T).raw("rt", T).raw("res_t", T));
    }
    int cid = add_inst(out, ev("Inst").str("kind", "WCmp").str("op", "cmp").raw("lt", T).raw("rt", T).raw("res_t", desc<bool>()));
    // bound the number of operand pairs: BigInt judging of 1000..2048-bit products and quotients is slow
    std::size_t maxpairs = bits >= 1000 ? (thorough() ? 400 : 250) : (thorough() ? 20000 : 2500);
    std::size_t stride = 1;
    while (vs.size() * vs.size() / stride > maxpairs) {
        ++stride;
    }
    for (std::size_t ia = 0; ia < vs.size(); ++ia) {
        for (std::size_t ib = (ia * 7) % stride; ib < vs.size(); ib += stride) {
            W const& a = vs[ia];
            W const& b = vs[ib];
            for (int k = 0; k < 8; ++k) {
                if ((k == 3 || k == 4) && raw(b) == "[0]") {
                    continue;
                }
                W r{};
                auto o = guarded([&] {
                    switch (k) {
                    case 0: r = a + b; break;
                    case 1: r = a - b; break;
                    case 2: r = a * b; break;
                    case 3: r = a / b; break;
                    case 4: r = a % b; break;
                    case 5: r = a & b; break;
                    case 6: r = a | b; break;
                    default: r = a ^ b; break;
                    }
                }, 5000);
                out.put(ev("WBin").num("i", ids[k]).raw("l", raw(a)).raw("r", raw(b)).raw("res", o == "ok" ? raw(r) : "[0]").str("out", o).s);
            }
            bool c[6] = {};
            auto o = guarded([&] {
                c[0] = a < b;
                c[1] = a <= b;
                c[2] = a > b;
                c[3] = a >= b;
                c[4] = a == b;
                c[5] = a != b;
            });
            char buf[32];
            std::snprintf(buf, sizeof(buf), "[%d,%d,%d,%d,%d,%d]", c[0], c[1], c[2], c[3], c[4], c[5]);
            out.put(ev("WCmp").num("i", cid).raw("l", raw(a)).raw("r", raw(b)).raw("c", buf).str("out", o).s);
        }
    }
    // comparisons with a built-in integer on either side (values equal to, next to and far from the integer)
    if constexpr (requires(W w, std::int64_t k) { k <= w; w <= k; }) {
        int c1 = add_inst(out, ev("Inst").str("kind", "WCmp").str("op", "cmp_int_wide").raw("lt", desc<std::int64_t>()).raw("rt", T).raw("res_t", desc<bool>()));
        int c2 = add_inst(out, ev("Inst").str("kind", "WCmp").str("op", "cmp_wide_int").raw("lt", T).raw("rt", desc<std::int64_t>()).raw("res_t", desc<bool>()));
        std::vector<W> ws;
        for (long long k : {0LL, 1LL, 7LL, 255LL, 65536LL, 4294967296LL, 9223372036854775807LL}) {
            ws.push_back(W(static_cast<std::int64_t>(k)));
            if constexpr (cnl::numbers::signedness_v<Rep>) {
                ws.push_back(W(static_cast<std::int64_t>(-k)));
            }
        }
        for (std::size_t k = 0; k < vs.size() && k < 12; ++k) {
            ws.push_back(vs[k]);
        }
        for (auto const& w : ws) {
            for (std::int64_t k : {std::int64_t{0}, std::int64_t{1}, std::int64_t{-1}, std::int64_t{7}, std::int64_t{255}, std::int64_t{65536}, std::int64_t{4294967296LL},
                                   std::int64_t{-4294967296LL}, std::numeric_limits<std::int64_t>::max(), std::numeric_limits<std::int64_t>::min()}) {
                if (k < 0 && !cnl::numbers::signedness_v<Rep>) {
                    continue;      // mixed signedness follows the built-in conversion rules: outside this check
                }
                bool c[12] = {};
                auto o = guarded([&] {
                    c[0] = k < w; c[1] = k <= w; c[2] = k > w; c[3] = k >= w; c[4] = k == w; c[5] = k != w;
                    c[6] = w < k; c[7] = w <= k; c[8] = w > k; c[9] = w >= k; c[10] = w == k; c[11] = w != k;
                });
                char buf[64];
                std::snprintf(buf, sizeof(buf), "[%d,%d,%d,%d,%d,%d]", c[0], c[1], c[2], c[3], c[4], c[5]);
                out.put(ev("WCmp").num("i", c1).raw("l", enc(k)).raw("r", raw(w)).raw("c", buf).str("out", o).s);
                std::snprintf(buf, sizeof(buf), "[%d,%d,%d,%d,%d,%d]", c[6], c[7], c[8], c[9], c[10], c[11]);
                out.put(ev("WCmp").num("i", c2).raw("l", raw(w)).raw("r", enc(k)).raw("c", buf).str("out", o).s);
            }
        }
    }
    // unary: negate, complement, increments
    int uid[4];
    char const* un[4] = {"neg", "id", "inc", "dec"};
    for (int k = 0; k < 4; ++k) {
        uid[k] = add_inst(out, ev("Inst").str("kind", "WUn").str("op", un[k]).raw("lt", T).raw("rt", T).raw("res_t", T));
    }
    int sid = add_inst(out, ev("Inst").str("kind", "WShift").str("op", "shift").raw("lt", T).raw("rt", desc<int>()).raw("res_t", T));
    int lid = add_inst(out, ev("Inst").str("kind", "WConvInt").str("op", "to_i64").raw("lt", T).raw("rt", desc<std::int64_t>()).raw("res_t", desc<std::int64_t>()));
    int l2id = add_inst(out, ev("Inst").str("kind", "WConvInt").str("op", "to_u32").raw("lt", T).raw("rt", desc<std::uint32_t>()).raw("res_t", desc<std::uint32_t>()));
    int did = add_inst(out, ev("Inst").str("kind", "WToFloat").str("op", "to_double").raw("lt", T).raw("rt", desc<double>()).raw("res_t", desc<double>()));
    int tid = add_inst(out, ev("Inst").str("kind", "WText").str("op", "ostream").raw("lt", T).raw("rt", T).raw("res_t", T));
    for (W const& a : vs) {
        for (int k = 0; k < 4; ++k) {
            W r{};
            auto o = guarded([&] {
                switch (k) {
                case 0: r = -a; break;
                case 1: r = a; break;   // operator~ does not compile for multi-limb wide_integer (recorded as identity, not judged)
                case 2: { W t = a; ++t; r = t; break; }
                default: { W t = a; --t; r = t; break; }
                }
            });
            out.put(ev("WUn").num("i", uid[k]).raw("l", raw(a)).raw("res", o == "ok" ? raw(r) : "[0]").str("out", o).s);
        }
        for (int s : {0, 1, 7, 8, 15, 16, 31, 32, 33, 63, 64, 65, 127, 128, static_cast<int>(bits) - 1, static_cast<int>(bits) / 2}) {
            if (s >= static_cast<int>(bits)) {
                continue;
            }
            W l{}, r{};
            auto o = guarded([&] {
                l = a << s;
                r = a >> s;
            });
            out.put(ev("WShift").num("i", sid).raw("l", raw(a)).num("k", s).raw("shl", o == "ok" ? raw(l) : "[0]").raw("shr", o == "ok" ? raw(r) : "[0]").str("out", o).s);
        }
        {
            std::int64_t v = 0;
            std::uint32_t u = 0;
            auto o = guarded([&] { v = static_cast<std::int64_t>(a); });
            out.put(ev("WConvInt").num("i", lid).raw("l", raw(a)).raw("res", enc(v)).str("out", o).s);
            o = guarded([&] { u = static_cast<std::uint32_t>(a); });
            out.put(ev("WConvInt").num("i", l2id).raw("l", raw(a)).raw("res", enc(u)).str("out", o).s);
        }
        // round 10: the 128-bit built-in integers (the boundary between built-in and multi-limb storage) and the narrow ones
        if constexpr (requires(W w) { static_cast<i128>(w); }) {
            static int const id = add_inst(out, ev("Inst").str("kind", "WConvInt").str("op", "to_i128").raw("lt", T).raw("rt", desc<i128>()).raw("res_t", desc<i128>()));
            i128 v = 0;
            auto o = guarded([&] { v = static_cast<i128>(a); });
            out.put(ev("WConvInt").num("i", id).raw("l", raw(a)).raw("res", enc(v)).str("out", o).s);
        }
        if constexpr (requires(W w) { static_cast<u128>(w); }) {
            static int const id = add_inst(out, ev("Inst").str("kind", "WConvInt").str("op", "to_u128").raw("lt", T).raw("rt", desc<u128>()).raw("res_t", desc<u128>()));
            u128 v = 0;
            auto o = guarded([&] { v = static_cast<u128>(a); });
            out.put(ev("WConvInt").num("i", id).raw("l", raw(a)).raw("res", enc(v)).str("out", o).s);
        }
        if constexpr (requires(W w) { static_cast<std::int8_t>(w); }) {
            static int const id = add_inst(out, ev("Inst").str("kind", "WConvInt").str("op", "to_i8").raw("lt", T).raw("rt", desc<std::int8_t>()).raw("res_t", desc<std::int8_t>()));
            std::int8_t v = 0;
            auto o = guarded([&] { v = static_cast<std::int8_t>(a); });
            out.put(ev("WConvInt").num("i", id).raw("l", raw(a)).raw("res", enc(v)).str("out", o).s);
        }
        if constexpr (requires(W w) { static_cast<double>(w); }) {
            double d = 0;
            auto o = guarded([&] { d = static_cast<double>(a); });
            out.put(ev("WToFloat").num("i", did).raw("l", raw(a)).raw("res", enc_float(d)).str("out", o).s);
        }
        if constexpr (requires(std::ostream& os, W w) { os << w; }) {
            std::string s;
            auto o = guarded([&] {
                std::ostringstream os;
                os << a;
                s = os.str();
            });
            std::string bytes = "[";
            for (std::size_t k = 0; k < s.size(); ++k) {
                bytes += (k ? "," : "") + std::to_string(static_cast<unsigned char>(s[k]));
            }
            bytes += "]";
            out.put(ev("WText").num("i", tid).raw("l", raw(a)).raw("txt", bytes).str("out", o).s);
        }
    }
    // construction from built-in integers and from double
    int fid = add_inst(out, ev("Inst").str("kind", "WFromInt").str("op", "from_i64").raw("lt", desc<std::int64_t>()).raw("rt", T).raw("res_t", T));
    for (std::int64_t v : operands<std::int64_t>(thorough() ? 50 : 8, salt + 5, thorough() ? 2 : 1)) {
        W r{};
        auto o = guarded([&] { r = W{v}; });
        out.put(ev("WFromInt").num("i", fid).raw("l", enc(v)).raw("res", o == "ok" ? raw(r) : "[0]").str("out", o).s);
    }
    int gid = add_inst(out, ev("Inst").str("kind", "WFromInt").str("op", "from_u64").raw("lt", desc<std::uint64_t>()).raw("rt", T).raw("res_t", T));
    for (std::uint64_t v : operands<std::uint64_t>(thorough() ? 50 : 8, salt + 6, thorough() ? 2 : 1)) {
        W r{};
        auto o = guarded([&] { r = W{v}; });
        out.put(ev("WFromInt").num("i", gid).raw("l", enc(v)).raw("res", o == "ok" ? raw(r) : "[0]").str("out", o).s);
    }
    if constexpr (requires(i128 v) { W{v}; }) {
        int id = add_inst(out, ev("Inst").str("kind", "WFromInt").str("op", "from_i128").raw("lt", desc<i128>()).raw("rt", T).raw("res_t", T));
        for (i128 v : operands<i128>(thorough() ? 50 : 10, salt + 7, thorough() ? 2 : 1)) {
            W r{};
            auto o = guarded([&] { r = W{v}; });
            out.put(ev("WFromInt").num("i", id).raw("l", enc(v)).raw("res", o == "ok" ? raw(r) : "[0]").str("out", o).s);
        }
    }
    if constexpr (requires(u128 v) { W{v}; }) {
        int id = add_inst(out, ev("Inst").str("kind", "WFromInt").str("op", "from_u128").raw("lt", desc<u128>()).raw("rt", T).raw("res_t", T));
        for (u128 v : operands<u128>(thorough() ? 50 : 10, salt + 8, thorough() ? 2 : 1)) {
            W r{};
            auto o = guarded([&] { r = W{v}; });
            out.put(ev("WFromInt").num("i", id).raw("l", enc(v)).raw("res", o == "ok" ? raw(r) : "[0]").str("out", o).s);
        }
    }
    if constexpr (requires(cnl::wide_integer<127> v) { W{v}; }) {
        // widening from a wide_integer that lives in built-in 128-bit storage
        using W127 = cnl::wide_integer<127>;
        int id = add_inst(out, ev("Inst").str("kind", "WFromInt").str("op", "from_w127").raw("lt", desc<i128>()).raw("rt", T).raw("res_t", T));
        for (i128 v : operands<i128>(thorough() ? 50 : 10, salt + 10, thorough() ? 2 : 1)) {
            W r{};
            auto o = guarded([&] { r = W{W127{v}}; });
            out.put(ev("WFromInt").num("i", id).raw("l", enc(v)).raw("res", o == "ok" ? raw(r) : "[0]").str("out", o).s);
        }
    }
    if constexpr (requires(double d) { W{d}; }) {
        int hid = add_inst(out, ev("Inst").str("kind", "WFromFloat").str("op", "from_double").raw("lt", desc<double>()).raw("rt", T).raw("res_t", T));
        rng r(salt + 9);
        for (int k = 0; k < (thorough() ? 400 : 60); ++k) {
            double m = static_cast<double>(r.g() >> 11);
            double d = std::ldexp(m, static_cast<int>(r.g() % (bits - 54)) - 20) * ((r.g() & 1) && cnl::numbers::signedness_v<Rep> ? -1 : 1);
            W w{};
            auto o = guarded([&] { w = W{d}; });
            out.put(ev("WFromFloat").num("i", hid).raw("l", enc_float(d)).raw("res", o == "ok" ? raw(w) : "[0]").str("out", o).s);
        }
    }
    int nid = add_inst(out, ev("Inst").str("kind", "WLimits").str("op", "limits").raw("lt", T).raw("rt", T).raw("res_t", T));
    out.put(ev("WLimits").num("i", nid).raw("lo", raw(std::numeric_limits<W>::lowest())).raw("hi", raw(std::numeric_limits<W>::max()))
                    .num("digits", std::numeric_limits<W>::digits).str("out", "ok").s);
}

int main(int argc, char** argv)
{
    if (argc < 2) {
        return 64;
    }
    install();
    sink out(argv[1], std::string("\"cc\":\"") + VERIF_CC + "\"");
#if WIDE_SET == 0
    wide_all<cnl::wide_integer<200>>(out, 1);
    wide_all<cnl::wide_integer<129, unsigned>>(out, 2);
    wide_all<cnl::wide_integer<160>>(out, 10);                   // signed, digits an exact multiple of the limb width
#elif WIDE_SET == 1
    wide_all<cnl::wide_integer<256, std::uint64_t>>(out, 3);
    wide_all<cnl::wide_integer<255, std::int16_t>>(out, 4);
    wide_all<cnl::wide_integer<256, std::int32_t>>(out, 11);     // the same with 8 x 32-bit limbs
#elif WIDE_SET == 2
    wide_all<cnl::wide_integer<500, std::int64_t>>(out, 5);
    wide_all<cnl::wide_integer<130, std::int8_t>>(out, 6);
    wide_all<cnl::wide_integer<192, std::int64_t>>(out, 12);     // and 3 x 64-bit limbs
#elif WIDE_SET == 3
    wide_all<cnl::wide_integer<1000>>(out, 7);
#elif WIDE_SET == 4
    wide_all<cnl::wide_integer<2048, std::uint32_t>>(out, 8);
#endif
    std::fprintf(stderr, "events=%llu insts=%d\n", out.n, out.ninst);
    return 0;
}
