// Recorder for the rounding family (C08 division under a rounding tag, C09 narrowing conversions under a
// rounding tag).  LHS_INDEX selects the left operand type of this translation unit.
#include "describe.hpp"

using namespace vf;

template<class Tag>
char const* rtag()
{
    if constexpr (std::is_same_v<Tag, cnl::native_rounding_tag>) return "native";
    else if constexpr (std::is_same_v<Tag, cnl::nearest_rounding_tag>) return "nearest";
    else if constexpr (std::is_same_v<Tag, cnl::tie_to_pos_inf_rounding_tag>) return "tie_to_pos_inf";
    else return "neg_inf";
}

#ifndef LHS_INDEX
#define LHS_INDEX 4
#endif
template<int I> struct nth;
template<> struct nth<0> { using type = std::int8_t; };
template<> struct nth<1> { using type = std::uint8_t; };
template<> struct nth<2> { using type = std::int16_t; };
template<> struct nth<3> { using type = std::uint16_t; };
template<> struct nth<4> { using type = std::int32_t; };
template<> struct nth<5> { using type = std::uint32_t; };
template<> struct nth<6> { using type = std::int64_t; };
template<> struct nth<7> { using type = std::uint64_t; };
using L = nth<LHS_INDEX>::type;

// divisors: small magnitudes (every tie pattern), TLC boundary set, seeded random
template<class B>
std::vector<B> divisors(std::uint64_t salt)
{
    std::vector<B> v;
    if constexpr (sizeof(B) == 1) {
        if (thorough() && sizeof(L) == 1) {
            return all_values<B>();      // 8-bit dividend x 8-bit divisor: every pair
        }
    }
    for (int k = 1; k <= (thorough() ? 7 : 5); ++k) {
        v.push_back(static_cast<B>(k));
        if constexpr (is_signed_int<B>) {
            v.push_back(static_cast<B>(-k));
        }
    }
    for (B b : operands<B>(thorough() ? 6 : 3, salt, 0)) {
        v.push_back(b);
    }
    return v;
}

// dividends directed at ties and near-ties of the given divisors: a = k*b + floor(b/2) + {-1,0,1}, plus
// the boundary set; computed in 128-bit arithmetic and kept only if representable (stimulus, not oracle)
template<class A, class B>
std::vector<A> dividends(std::vector<B> const& bs, std::uint64_t salt)
{
    std::vector<A> v;
    if constexpr (sizeof(A) == 1) {
        return all_values<A>();
    }
    for (A a : operands<A>(thorough() ? 6 : 2, salt, 0)) {
        v.push_back(a);
    }
    i128 lo = static_cast<i128>(std::numeric_limits<A>::min());
    i128 hi = static_cast<i128>(std::numeric_limits<A>::max());
    int n = 0;
    for (B b : bs) {
        if (++n > (thorough() ? 10 : 5)) {
            break;
        }
        i128 bb = static_cast<i128>(b);
        if (bb > (static_cast<i128>(1) << 100) || bb < -(static_cast<i128>(1) << 100)) {
            continue;
        }
        for (i128 k : {static_cast<i128>(-3), static_cast<i128>(-1), static_cast<i128>(0), static_cast<i128>(1),
                       static_cast<i128>(2), static_cast<i128>(7)}) {
            if (!thorough() && (k == -3 || k == 1 || k == 7)) {
                continue;
            }
            for (i128 d : {static_cast<i128>(-1), static_cast<i128>(0), static_cast<i128>(1)}) {
                i128 half = (bb < 0 ? -bb : bb) / 2;
                for (i128 sgn : {static_cast<i128>(1), static_cast<i128>(-1)}) {
                    i128 a = k * bb + sgn * half + d;
                    if (a >= lo && a <= hi) {
                        v.push_back(static_cast<A>(a));
                    }
                }
            }
        }
    }
    return v;
}

template<class Tag, class A, class B>
void div_family(sink& out, int salt)
{
    auto bs = divisors<B>(static_cast<std::uint64_t>(salt) * 10 + 1);
    auto as = dividends<A, B>(bs, static_cast<std::uint64_t>(salt) * 10 + 2);
    {
        using Res = decltype(cnl::_impl::operate<cnl::_impl::divide_op, Tag>{}(std::declval<A>(), std::declval<B>()));
        int id = add_inst(out, ev("Inst").str("kind", "RDiv").str("op", "div").str("tag", rtag<Tag>()).str("api", "operate")
                                       .raw("lt", ty<A>()).raw("rt", ty<B>()).raw("res_t", ty<Res>()));
        for (A a : as) {
            for (B b : bs) {
                if (b == 0) {
                    continue;
                }
                Res res{};
                auto o = guarded([&] { res = cnl::_impl::operate<cnl::_impl::divide_op, Tag>{}(a, b); });
                out.put(ev("RDiv").num("i", id).raw("l", enc(a)).raw("r", enc(b)).raw("res", o == "ok" ? enc(res) : "[0]")
                                .str("out", o).s);
            }
        }
    }
    {
        using WA = cnl::rounding_integer<A, Tag>;
        using WB = cnl::rounding_integer<B, Tag>;
        using Res = cnl::_impl::rep_of_t<decltype(std::declval<WA>() / std::declval<WB>())>;
        int id = add_inst(out, ev("Inst").str("kind", "RDiv").str("op", "div").str("tag", rtag<Tag>()).str("api", "wrapper")
                                       .raw("lt", ty<A>()).raw("rt", ty<B>()).raw("res_t", ty<Res>()));
        std::size_t stride = thorough() ? 3 : 5;
        for (std::size_t ia = 0; ia < as.size(); ia += stride) {
            for (B b : bs) {
                if (b == 0) {
                    continue;
                }
                A a = as[ia];
                Res res{};
                auto o = guarded([&] { res = cnl::_impl::to_rep(WA{a} / WB{b}); });
                out.put(ev("RDiv").num("i", id).raw("l", enc(a)).raw("r", enc(b)).raw("res", o == "ok" ? enc(res) : "[0]")
                                .str("out", o).s);
            }
        }
    }
}

template<class Op, class Tag, class A, class B>
void other_op(sink& out, char const* opn, std::vector<A> const& as, std::vector<B> const& bs)
{
    using WA = cnl::rounding_integer<A, Tag>;
    using WB = cnl::rounding_integer<B, Tag>;
    using Res = cnl::_impl::rep_of_t<decltype(Op{}(std::declval<WA>(), std::declval<WB>()))>;
    int id = add_inst(out, ev("Inst").str("kind", "ROp").str("op", opn).str("tag", rtag<Tag>()).str("api", "wrapper")
                                   .raw("lt", ty<A>()).raw("rt", ty<B>()).raw("res_t", ty<Res>()));
    for (A a : as) {
        for (B b : bs) {
            if (std::string(opn) == "mod" && b == 0) {
                continue;
            }
            Res res{};
            auto o = guarded([&] { res = cnl::_impl::to_rep(Op{}(WA{a}, WB{b})); });
            out.put(ev("ROp").num("i", id).raw("l", enc(a)).raw("r", enc(b)).raw("res", o == "ok" ? enc(res) : "[0]")
                            .str("out", o).s);
        }
    }
}

template<class Tag, class A, class B>
void others(sink& out, int salt)
{
    auto as = boundary<A>(0);
    auto bs = boundary<B>(0);
    (void)salt;
    using namespace cnl::_impl;
    other_op<add_op, Tag>(out, "add", as, bs);
    other_op<subtract_op, Tag>(out, "sub", as, bs);
    other_op<multiply_op, Tag>(out, "mul", as, bs);
    other_op<modulo_op, Tag>(out, "mod", as, bs);
}

// ---- C09: narrowing conversions under a rounding tag -------------------------------------------------

template<class Tag, class Src, class Dst>
void rconv(sink& out, std::vector<Src> const& ss)
{
    if constexpr (requires(Src s) { cnl::convert<Tag, Dst>{}(s); }) {
        using Res = decltype(cnl::convert<Tag, Dst>{}(std::declval<Src>()));
        int id = add_inst(out, ev("Inst").str("kind", "RConv").str("op", "conv").str("tag", rtag<Tag>()).str("api", "convert")
                                       .raw("lt", desc<Src>()).raw("rt", desc<Dst>()).raw("res_t", desc<Res>()));
        for (auto const& a : ss) {
            Res res{};
            auto o = guarded([&] { res = cnl::convert<Tag, Dst>{}(a); });
            std::string lv;
            if constexpr (std::is_floating_point_v<Src>) {
                lv = enc_float(a);
            } else {
                lv = raw(a);
            }
            out.put(ev("RConv").num("i", id).raw("l", lv).raw("res", o == "ok" ? raw(res) : "[0]").str("out", o).s);
        }
    }
}

// the same conversion through the wrapper: rounding_integer<Dst, Tag>{x}
template<class Tag, class Src, class Dst>
void rconv_wrapper(sink& out, std::vector<Src> const& ss)
{
    if constexpr (std::is_integral_v<Dst>) {
        using W = cnl::rounding_integer<Dst, Tag>;
        int id = add_inst(out, ev("Inst").str("kind", "RConv").str("op", "conv").str("tag", rtag<Tag>()).str("api", "wrapper")
                                       .raw("lt", desc<Src>()).raw("rt", desc<Dst>()).raw("res_t", desc<Dst>()));
        for (auto const& a : ss) {
            Dst res{};
            auto o = guarded([&] { res = cnl::_impl::to_rep(W{a}); });
            out.put(ev("RConv").num("i", id).raw("l", enc_float(a)).raw("res", o == "ok" ? raw(res) : "[0]").str("out", o).s);
        }
    }
}

// floats around every tie k + 0.5 (and its two neighbours), at the unit 2^E of the destination
template<class F>
std::vector<F> tie_floats(int E, long long maxk)
{
    std::vector<F> v;
    F unit = std::ldexp(static_cast<F>(1), E);
    std::vector<long long> ks = {0, 1, 2, 3, 4, 5, 6, 7, 100, 101, 1000, 32766, 32767, 65535, 8388607, 8388608, 2147483646LL, 2147483647LL,
                                 4294967295LL, (1LL << 52) - 1, (1LL << 53) + 1, (1LL << 62) - 1};
    rng r(static_cast<std::uint64_t>(E) + 999);
    for (int i = 0; i < (thorough() ? 24 : 8); ++i) {
        ks.push_back(static_cast<long long>(r.value<std::uint64_t>() >> 1));
    }
    for (long long k : ks) {
        if (k > maxk) {
            continue;
        }
        for (int sgn : {1, -1}) {
            for (F frac : {static_cast<F>(0), static_cast<F>(0.25), static_cast<F>(0.5), static_cast<F>(0.75)}) {
                F x = static_cast<F>(sgn) * (static_cast<F>(k) + frac) * unit;
                v.push_back(x);
                v.push_back(std::nextafter(x, std::numeric_limits<F>::infinity()));
                v.push_back(std::nextafter(x, -std::numeric_limits<F>::infinity()));
            }
        }
    }
    return v;
}

template<class Tag, class Dst>
void float_to(sink& out, int E)
{
    long long maxk = static_cast<long long>(std::min<u128>(static_cast<u128>(cnl::unwrap(std::numeric_limits<Dst>::max())),
                                                          static_cast<u128>(std::numeric_limits<long long>::max())));
    rconv<Tag, float, Dst>(out, tie_floats<float>(E, maxk));
    rconv<Tag, double, Dst>(out, tie_floats<double>(E, maxk));
    rconv<Tag, long double, Dst>(out, tie_floats<long double>(E, maxk));
    rconv_wrapper<Tag, float, Dst>(out, tie_floats<float>(E, maxk));
    rconv_wrapper<Tag, double, Dst>(out, tie_floats<double>(E, maxk));
}

template<class Rep, int E, int R = 2>
using SI = cnl::scaled_integer<Rep, cnl::power<E, R>>;

// finer scaled source -> coarser destination: every residue pattern around ties
template<class Tag, class Src, class Dst>
void scaled_to(sink& out, int salt)
{
    auto vs = number_values<Src>(thorough() ? 100 : 30, static_cast<std::uint64_t>(salt), thorough() ? 2 : 1);
    // small raw values cover every residue (incl. exact ties) for shifts up to 6 digits
    for (int k = -70; k <= 70; ++k) {
        using I = innermost_t<Src>;
        if (k < 0 && !is_signed_int<I>) {
            continue;
        }
        if (static_cast<i128>(k) >= static_cast<i128>(cnl::unwrap(std::numeric_limits<Src>::lowest()))
            && static_cast<i128>(k) <= static_cast<i128>(cnl::unwrap(std::numeric_limits<Src>::max()))) {
            vs.push_back(make<Src>(k < 0, static_cast<u128>(k < 0 ? -k : k)));
        }
    }
    rconv<Tag, Src, Dst>(out, vs);
}

template<class Tag>
void conv_family(sink& out)
{
    float_to<Tag, L>(out, 0);
    float_to<Tag, SI<L, -4>>(out, -4);
    float_to<Tag, SI<L, 3>>(out, 3);
    float_to<Tag, SI<L, -20>>(out, -20);
    if constexpr (LHS_INDEX == 2) {
        // round 9: destinations finer than the source format's significand (24 / 53 / 64 digits): small sources whose
        // fractional part (in destination units) is a tie or a quarter
        float_to<Tag, SI<std::int32_t, -30>>(out, -30);
        float_to<Tag, SI<std::int64_t, -62>>(out, -62);
        float_to<Tag, SI<std::int64_t, -66>>(out, -66);
        float_to<Tag, SI<std::int32_t, -24>>(out, -24);
    }
    // integer destinations that are not built-in types
    float_to<Tag, cnl::elastic_integer<20>>(out, 0);
    float_to<Tag, cnl::elastic_integer<40>>(out, 0);
    scaled_to<Tag, SI<L, -4>, SI<L, 0>>(out, 11);
    scaled_to<Tag, SI<std::int64_t, -20>, SI<L, -14>>(out, 13);
    scaled_to<Tag, SI<std::int32_t, -3>, SI<L, 2>>(out, 14);
    scaled_to<Tag, SI<std::int32_t, -2, 10>, SI<L, 0, 10>>(out, 15);
    scaled_to<Tag, SI<L, -1>, SI<L, 0>>(out, 16);
    // finer scaled_integer -> built-in integer (tie_to_pos_inf and neg_inf: under nearest and native the library has no such conversion -- a hard error, not a constraint)
    if constexpr (std::is_same_v<Tag, cnl::tie_to_pos_inf_rounding_tag> || std::is_same_v<Tag, cnl::neg_inf_rounding_tag>) {
        scaled_to<Tag, SI<L, -4>, L>(out, 17);
        scaled_to<Tag, SI<std::int32_t, -3>, std::int64_t>(out, 18);
        scaled_to<Tag, SI<std::int16_t, -1>, std::int32_t>(out, 19);
    }
}

template<class Tag>
void all_for_tag(sink& out)
{
    // quick tier: same-width divisor types of both signedness, the narrowest signed and the widest unsigned;
    // thorough: every divisor type
    div_family<Tag, L, std::make_signed_t<L>>(out, LHS_INDEX * 10 + 0);
    div_family<Tag, L, std::make_unsigned_t<L>>(out, LHS_INDEX * 10 + 1);
    if (sizeof(L) != 1 || thorough()) {
        div_family<Tag, L, std::int8_t>(out, LHS_INDEX * 10 + 2);
    }
    if (sizeof(L) != 8 || thorough()) {
        div_family<Tag, L, std::uint64_t>(out, LHS_INDEX * 10 + 3);
    }
    if (sizeof(L) != 8 && (thorough() || !is_signed_int<L>)) {
        // a strictly wider signed divisor: the common type is signed, so negative divisors are in the domain of an unsigned dividend
        div_family<Tag, L, std::int64_t>(out, LHS_INDEX * 10 + 9);
    }
    if (thorough()) {
        div_family<Tag, L, std::uint8_t>(out, LHS_INDEX * 10 + 4);
        div_family<Tag, L, std::int16_t>(out, LHS_INDEX * 10 + 5);
        div_family<Tag, L, std::uint16_t>(out, LHS_INDEX * 10 + 6);
        div_family<Tag, L, std::int32_t>(out, LHS_INDEX * 10 + 7);
        div_family<Tag, L, std::uint32_t>(out, LHS_INDEX * 10 + 8);
    }
    others<Tag, L, std::int32_t>(out, 1);
    if (thorough()) {
        others<Tag, L, std::uint8_t>(out, 2);
        others<Tag, L, std::int64_t>(out, 3);
    }
    conv_family<Tag>(out);
}

int main(int argc, char** argv)
{
    if (argc < 2) {
        return 64;
    }
    install();
    sink out(argv[1], std::string("\"cc\":\"") + VERIF_CC + "\"");
    all_for_tag<cnl::nearest_rounding_tag>(out);
    all_for_tag<cnl::tie_to_pos_inf_rounding_tag>(out);
    all_for_tag<cnl::neg_inf_rounding_tag>(out);
    all_for_tag<cnl::native_rounding_tag>(out);
    std::fprintf(stderr, "events=%llu insts=%d\n", out.n, out.ninst);
    return 0;
}
