// Recorder infrastructure shared by all harnesses.
//
// The harness DRIVES the real cnl templates and RECORDS what happened as NDJSON events.
// It never computes an expected value: every verdict is TLC's, evaluating /verif/spec on the events.
#pragma once

#include <cnl/all.h>

#include <csetjmp>
#include <csignal>
#include <cstdint>
#include <cstdio>
#include <cstdlib>
#include <cstring>
#include <fstream>
#include <map>
#include <random>
#include <sstream>
#include <stdexcept>
#include <string>
#include <type_traits>
#include <sys/time.h>
#include <unistd.h>
#include <vector>

namespace vf {
    using i128 = __int128;
    using u128 = unsigned __int128;

    ////////////////////////////////////////////////////////////////////////////
    // outcome capture: UB traps (UBSan trap mode => SIGILL; SIGFPE; SIGSEGV/SIGBUS),
    // cnl abort()/unreachable() via the JOHNMCFARLANE_CNL_VERIF hook, exceptions, watchdog

    inline sigjmp_buf g_env;
    inline volatile sig_atomic_t g_armed = 0;
    inline char g_msg[256];

    extern "C" inline void on_signal(int s)
    {
        if (!g_armed) {
            // a fault outside a guarded region is a harness bug, not an observation
            char const m[] = "verif-harness: signal outside guarded region\n";
            (void)!write(2, m, sizeof(m) - 1);
            _exit(70);
        }
        char const* n = s == SIGILL ? "ub:SIGILL" : s == SIGFPE ? "ub:SIGFPE" : s == SIGSEGV ? "ub:SIGSEGV"
                      : s == SIGBUS                                                          ? "ub:SIGBUS"
                      : s == SIGALRM                                                         ? "timeout"
                                                                                             : "ub:signal";
        std::strncpy(g_msg, n, sizeof(g_msg) - 1);
        siglongjmp(g_env, 1);
    }

    inline void on_terminal(int kind, char const* message)
    {
        if (!g_armed) {
            return;  // let the library print and abort for real
        }
        if (kind == 1) {
            std::snprintf(g_msg, sizeof(g_msg), "unreachable");
        } else {
            // CNL_ASSERT failures (debug contracts) also arrive through abort(): tell them apart by text
            bool is_assert = std::strstr(message, " assert: ") != nullptr
                          || std::strstr(message, "internal error") != nullptr;
            std::snprintf(g_msg, sizeof(g_msg), "%s:%.200s", is_assert ? "unreachable" : "trap", message);
        }
        siglongjmp(g_env, 1);
    }

    inline void install()
    {
        // handlers run on their own stack: runaway recursion in the code under test (stack overflow) is then an
        // observed outcome (ub:SIGSEGV) of the guarded call instead of the death of the recorder
        static char alt_stack[1 << 16];
        stack_t ss {};
        ss.ss_sp = alt_stack;
        ss.ss_size = sizeof(alt_stack);
        ss.ss_flags = 0;
        sigaltstack(&ss, nullptr);
        struct sigaction sa {};
        sa.sa_handler = on_signal;
        sa.sa_flags = SA_NODEFER | SA_ONSTACK;
        sigemptyset(&sa.sa_mask);
        for (int s : {SIGILL, SIGFPE, SIGSEGV, SIGBUS, SIGALRM}) {
            sigaction(s, &sa, nullptr);
        }
#if defined(JOHNMCFARLANE_CNL_VERIF)
        cnl::_impl::verif::terminal_hook = on_terminal;
#else
#error "harness must be built with -DJOHNMCFARLANE_CNL_VERIF"
#endif
    }

    inline void watchdog(unsigned ms)
    {
        struct itimerval it {};
        it.it_value.tv_sec = ms / 1000;
        it.it_value.tv_usec = static_cast<long>(ms % 1000) * 1000;
        setitimer(ITIMER_REAL, &it, nullptr);
    }

    // runs f(); returns "ok" | "throw:<what>" | "trap:<msg>" | "unreachable[:<msg>]" | "ub:<sig>" | "timeout"
    template<class F>
    std::string guarded(F&& f, unsigned watchdog_ms = 0)
    {
        std::string out = "ok";
        if (sigsetjmp(g_env, 1)) {
            g_armed = 0;
            if (watchdog_ms) {
                watchdog(0);
            }
            return std::string(g_msg);
        }
        g_armed = 1;
        if (watchdog_ms) {
            watchdog(watchdog_ms);
        }
        try {
            f();
        } catch (std::overflow_error const& e) {
            out = std::string("throw:") + e.what();
        } catch (std::exception const& e) {
            out = std::string("throw_other:") + e.what();
        } catch (...) {
            out = "throw_other:?";
        }
        if (watchdog_ms) {
            watchdog(0);
        }
        g_armed = 0;
        return out;
    }

    ////////////////////////////////////////////////////////////////////////////
    // encoding: integers as [sign, limb0, limb1, ...] base 2^15 (TLC ints are 32-bit)

    inline void enc_mag(std::string& s, u128 m)
    {
        while (m) {
            s += ',';
            s += std::to_string(static_cast<unsigned>(m & 32767U));
            m >>= 15;
        }
    }

    template<class T>
    requires(std::is_integral_v<T> || std::is_same_v<T, i128> || std::is_same_v<T, u128>)
    std::string enc(T v)
    {
        std::string s;
        if constexpr (std::is_same_v<T, bool>) {
            s = "[0";
            enc_mag(s, v ? 1 : 0);
        } else if constexpr (std::is_signed_v<T> || std::is_same_v<T, i128>) {
            bool neg = v < 0;
            // magnitude without executing signed overflow
            u128 m = neg ? (~static_cast<u128>(static_cast<i128>(v)) + 1) : static_cast<u128>(v);
            s = neg ? "[1" : "[0";
            enc_mag(s, m);
        } else {
            s = "[0";
            enc_mag(s, static_cast<u128>(v));
        }
        return s + "]";
    }

    // little-endian 32-bit words of an unsigned magnitude, any length
    inline std::string enc_words(bool neg, std::vector<std::uint32_t> w)
    {
        // convert base 2^32 -> base 2^15 by bit slicing
        std::string s = neg ? "[1" : "[0";
        std::size_t nbits = w.size() * 32;
        std::vector<unsigned> limbs;
        for (std::size_t b = 0; b < nbits; b += 15) {
            unsigned limb = 0;
            for (unsigned k = 0; k < 15 && b + k < nbits; ++k) {
                std::size_t bit = b + k;
                limb |= ((w[bit / 32] >> (bit % 32)) & 1U) << k;
            }
            limbs.push_back(limb);
        }
        while (!limbs.empty() && limbs.back() == 0) {
            limbs.pop_back();
        }
        if (limbs.empty()) {
            return "[0]";
        }
        for (unsigned l : limbs) {
            s += ',';
            s += std::to_string(l);
        }
        return s + "]";
    }

    // floating point written exactly: [sign, exp2, mantissa limbs...] meaning (-1)^sign * M * 2^exp2
    template<class F>
    requires std::is_floating_point_v<F>
    std::string enc_float(F x)
    {
        if (x != x) {
            return "{\"c\":\"nan\",\"n\":0,\"e\":0,\"m\":[0]}";
        }
        if (x - x != 0) {
            return x > 0 ? "{\"c\":\"inf\",\"n\":0,\"e\":0,\"m\":[0]}" : "{\"c\":\"inf\",\"n\":1,\"e\":0,\"m\":[0]}";
        }
        bool neg = std::signbit(x);
        long double a = neg ? -static_cast<long double>(x) : static_cast<long double>(x);
        int e = 0;
        u128 m = 0;
        if (a != 0) {
            long double fr = std::frexp(a, &e);  // a = fr * 2^e, fr in [0.5,1)
            // 64 bits are enough for float, double and x87 long double
            long double sc = std::ldexp(fr, 64);
            m = static_cast<u128>(static_cast<unsigned long long>(sc));
            e -= 64;
            while (m && !(m & 1)) {
                m >>= 1;
                ++e;
            }
        }
        std::string s = "{\"c\":\"fin\",\"n\":";
        s += neg ? "1" : "0";
        s += ",\"e\":" + std::to_string(e) + ",\"m\":[0";
        enc_mag(s, m);
        return s + "]}";
    }

    ////////////////////////////////////////////////////////////////////////////
    // type descriptors for built-ins

    template<class T>
    std::string ty()
    {
        if constexpr (std::is_floating_point_v<T>) {
            return std::string("{\"k\":\"float\",\"p\":") + std::to_string(std::numeric_limits<T>::digits) + "}";
        } else {
            constexpr bool sgn = std::is_same_v<T, i128> || (!std::is_same_v<T, u128> && std::is_signed_v<T>);
            return std::string("{\"k\":\"int\",\"w\":") + std::to_string(sizeof(T) * 8) + ",\"s\":" + (sgn ? "1" : "0")
                 + "}";
        }
    }

    ////////////////////////////////////////////////////////////////////////////
    // event sink

    struct sink {
        FILE* f = nullptr;
        std::string common;  // fields added to every event, e.g. "cc":"gcc","path":"intrinsic"
        unsigned long long n = 0;
        int ninst = 0;
        explicit sink(char const* path, std::string c)
            : f(std::fopen(path, "w"))
            , common(std::move(c))
        {
            if (!f) {
                std::perror(path);
                std::exit(71);
            }
            static std::vector<char> buf(1 << 22);
            std::setvbuf(f, buf.data(), _IOFBF, buf.size());
        }
        ~sink()
        {
            if (f) {
                std::fclose(f);
            }
        }
        void put(std::string const& body)
        {
            std::fputc('{', f);
            std::fputs(common.c_str(), f);
            std::fputc(',', f);
            std::fputs(body.c_str(), f);
            std::fputs("}\n", f);
            ++n;
        }
    };

    struct ev;
    int add_inst(sink& out, ev const& e);

    inline std::string q(std::string const& s)
    {
        std::string r = "\"";
        for (char c : s) {
            if (c == '"' || c == '\\') {
                r += '\\';
                r += c;
            } else if (static_cast<unsigned char>(c) < 32) {
                r += ' ';
            } else {
                r += c;
            }
        }
        return r + "\"";
    }

    struct ev {
        std::string s;
        ev(char const* kind)
        {
            s = "\"e\":\"";
            s += kind;
            s += "\"";
        }
        ev& raw(char const* k, std::string const& v)
        {
            s += ",\"";
            s += k;
            s += "\":";
            s += v;
            return *this;
        }
        ev& str(char const* k, std::string const& v)
        {
            return raw(k, q(v));
        }
        ev& num(char const* k, long long v)
        {
            return raw(k, std::to_string(v));
        }
    };

    // instantiation records go to the same stream; events refer to them by 1-based index "i"
    inline int add_inst(sink& out, ev const& e)
    {
        out.put(e.s);
        --out.n;
        return ++out.ninst;
    }

    ////////////////////////////////////////////////////////////////////////////
    // stimuli: boundary sets are emitted by TLC from spec/gen/GenValues.tla (file VERIF_VALUES);
    // 8-bit types are enumerated completely; random values come from VERIF_SEED.

    inline std::uint64_t seed()
    {
        char const* s = std::getenv("VERIF_SEED");
        return s ? std::strtoull(s, nullptr, 10) : 1;
    }

    inline bool thorough()
    {
        char const* s = std::getenv("VERIF_TIER");
        return s && std::string(s) == "thorough";
    }

    // lines: "<w> <s> <tier> <<sign, limb0, ...>>" (anything that is not a digit separates numbers)
    struct tabval {
        int tier;
        bool neg;
        u128 mag;
    };
    inline std::map<std::pair<int, int>, std::vector<tabval>> const& value_table()
    {
        static std::map<std::pair<int, int>, std::vector<tabval>> t;
        static bool loaded = false;
        if (!loaded) {
            loaded = true;
            char const* p = std::getenv("VERIF_VALUES");
            if (!p) {
                std::fprintf(stderr, "VERIF_VALUES not set\n");
                std::exit(72);
            }
            std::ifstream in(p);
            if (!in) {
                std::fprintf(stderr, "cannot read %s\n", p);
                std::exit(72);
            }
            std::string line;
            while (std::getline(in, line)) {
                std::vector<unsigned long> nums;
                unsigned long cur = 0;
                bool have = false;
                for (char c : line) {
                    if (c >= '0' && c <= '9') {
                        cur = cur * 10 + static_cast<unsigned long>(c - '0');
                        have = true;
                    } else if (have) {
                        nums.push_back(cur);
                        cur = 0;
                        have = false;
                    }
                }
                if (have) {
                    nums.push_back(cur);
                }
                if (nums.size() < 4) {
                    continue;
                }
                u128 m = 0;
                for (std::size_t i = nums.size(); i-- > 4;) {
                    m = (m << 15) | nums[i];
                }
                t[{static_cast<int>(nums[0]), static_cast<int>(nums[1])}].push_back(
                        {static_cast<int>(nums[2]), nums[3] == 1, m});
            }
        }
        return t;
    }

    template<class T>
    constexpr bool is_signed_int = std::is_same_v<T, i128> || (!std::is_same_v<T, u128> && std::is_signed_v<T>);

    template<class T>
    T from_sm(bool neg, u128 m)
    {
        // two's complement assembly without signed overflow
        u128 u = neg ? (~m + 1) : m;
        if constexpr (sizeof(T) == 16) {
            return static_cast<T>(u);
        } else {
            using U = std::make_unsigned_t<T>;
            U uu = static_cast<U>(u);
            T r;
            std::memcpy(&r, &uu, sizeof(T));
            return r;
        }
    }

    // boundary values for T from the TLC-generated table, tiers 0..maxtier
    // (default: tier 0 in the quick tier, tiers 0..1 in the thorough tier)
    template<class T>
    std::vector<T> boundary(int maxtier = -1)
    {
        if (maxtier < 0) {
            maxtier = thorough() ? 1 : 0;      // tier 2 (hundreds of values per type) only where a caller asks for it
        }
        auto const& t = value_table();
        auto it = t.find({static_cast<int>(sizeof(T) * 8), is_signed_int<T> ? 1 : 0});
        if (it == t.end()) {
            std::fprintf(stderr, "no boundary values for w=%zu\n", sizeof(T) * 8);
            std::exit(72);
        }
        std::vector<T> v;
        for (auto const& tv : it->second) {
            if (tv.tier <= maxtier) {
                v.push_back(from_sm<T>(tv.neg, tv.mag));
            }
        }
        return v;
    }

    template<class T>
    std::vector<T> all_values()
    {
        static_assert(sizeof(T) == 1);
        std::vector<T> v;
        for (int i = std::numeric_limits<T>::min(); i <= std::numeric_limits<T>::max(); ++i) {
            v.push_back(static_cast<T>(i));
        }
        return v;
    }

    template<class T>
    std::vector<T> all_values_or_boundary()
    {
        if constexpr (sizeof(T) == 1) {
            return all_values<T>();
        } else {
            return boundary<T>();
        }
    }

    struct rng {
        std::mt19937_64 g;
        explicit rng(std::uint64_t salt)
            : g(seed() * 0x9E3779B97F4A7C15ULL + salt)
        {
        }
        // log-uniform magnitude random value of T
        template<class T>
        T value()
        {
            int w = static_cast<int>(sizeof(T) * 8);
            int bits = static_cast<int>(g() % static_cast<unsigned>(w + 1));
            u128 m = (static_cast<u128>(g()) << 64) | g();
            if (bits < 128) {
                m &= ((static_cast<u128>(1) << bits) - 1);
            }
            bool neg = is_signed_int<T> && (g() & 1);
            return from_sm<T>(neg, m);
        }
    };

    // boundary set (tier per VERIF_TIER unless given) + nrand seeded random values
    template<class T>
    std::vector<T> operands(int nrand, std::uint64_t salt, int maxtier = -1)
    {
        std::vector<T> v = boundary<T>(maxtier);
        rng r(salt);
        for (int i = 0; i < nrand; ++i) {
            v.push_back(r.template value<T>());
        }
        return v;
    }
}
