// Recorder for the overflow family (C06, C07): drives cnl's tagged operators and overflow_integer
// over every pairing of built-in integer types, records operands, result type, result and outcome.
// Built once per (compiler, detection path); LHS_INDEX selects the left operand type of this TU.
#include "verif.hpp"

using namespace vf;

template<class Tag>
char const* tagname()
{
    if constexpr (std::is_same_v<Tag, cnl::saturated_overflow_tag>) return "saturated";
    else if constexpr (std::is_same_v<Tag, cnl::_impl::throwing_overflow_tag>) return "throwing";
    else if constexpr (std::is_same_v<Tag, cnl::trapping_overflow_tag>) return "trapping";
    else if constexpr (std::is_same_v<Tag, cnl::native_overflow_tag>) return "native";
    else return "undefined";
}

#ifndef LHS_INDEX
#define LHS_INDEX 4
#endif

template<int I> struct nth;
template<> struct nth<0> { using type = std::int8_t; };
template<> struct nth<1> { using type = std::uint8_t; };
template<> struct nth<2> { using type = std::int16_t; };
template<> struct nth<3> { using type = std::uint16_t; };
template<> struct nth<4> { using type = std::int32_t; };
template<> struct nth<5> { using type = std::uint32_t; };
template<> struct nth<6> { using type = std::int64_t; };
template<> struct nth<7> { using type = std::uint64_t; };
template<> struct nth<8> { using type = i128; };
template<> struct nth<9> { using type = u128; };

using L = nth<LHS_INDEX>::type;

// operand sets.  thorough: 8-bit x 8-bit operand pairs are enumerated completely under the saturated tag.  quick: an 8-bit left operand is
// enumerated completely against the TLC boundary set (tier <= 1) of an 8-bit right operand; everything
// else uses the TLC boundary set (tier 0) plus seeded random values.
template<class T, class Other, bool IsLhs>
std::vector<T> values_for(std::uint64_t salt, bool both8)
{
    if constexpr (sizeof(T) == 1) {
        if ((IsLhs && sizeof(Other) == 1) || (both8 && sizeof(Other) == 1)) {
            return all_values<T>();
        }
        if (sizeof(Other) == 1) {
            return boundary<T>(1);
        }
    }
    return operands<T>(thorough() ? 12 : 5, salt, 0);
}

template<class T>
std::vector<T> shift_counts()
{
    std::vector<T> v;
    for (int k = 0; k <= 130; ++k) {
        if (k <= static_cast<int>(std::numeric_limits<std::conditional_t<(sizeof(T) > 8), long long, T>>::max())) {
            v.push_back(static_cast<T>(k));
        }
    }
    v.push_back(std::numeric_limits<T>::max());
    return v;
}

template<class Op, class Tag, class A, class B>
void run_bin(sink& out, char const* opn, std::vector<A> const& ls, std::vector<B> const& rs)
{
    using Res = decltype(cnl::_impl::operate<Op, Tag>{}(std::declval<A>(), std::declval<B>()));
    int id = add_inst(
            out, ev("Inst").str("kind", "OvBin").str("op", opn).str("tag", tagname<Tag>()).str("api", "operate")
                         .str("path", VERIF_PATH).raw("lt", ty<A>()).raw("rt", ty<B>()).raw("res_t", ty<Res>()));
    bool is_div = std::string(opn) == "div";
    for (A a : ls) {
        for (B b : rs) {
            if (is_div && b == 0) {
                continue;  // zero divisors are outside the properties' domain
            }
            Res res{};
            auto o = guarded([&] { res = cnl::_impl::operate<Op, Tag>{}(a, b); });
            out.put(ev("OvBin").num("i", id).raw("l", enc(a)).raw("r", enc(b)).raw("res", o == "ok" ? enc(res) : "[0]")
                            .str("out", o).s);
        }
    }
}

template<class Op, class Tag, class A, class B>
void run_bin_wrapper(sink& out, char const* opn, std::vector<A> const& ls, std::vector<B> const& rs)
{
    using WL = cnl::overflow_integer<A, Tag>;
    using WR = cnl::overflow_integer<B, Tag>;
    using WRes = decltype(Op{}(std::declval<WL>(), std::declval<WR>()));
    using Res = cnl::_impl::rep_of_t<WRes>;
    int id = add_inst(
            out, ev("Inst").str("kind", "OvBin").str("op", opn).str("tag", tagname<Tag>()).str("api", "wrapper")
                         .str("path", VERIF_PATH).raw("lt", ty<A>()).raw("rt", ty<B>()).raw("res_t", ty<Res>()));
    bool is_div = std::string(opn) == "div";
    for (A a : ls) {
        for (B b : rs) {
            if (is_div && b == 0) {
                continue;
            }
            Res res{};
            auto o = guarded([&] { res = cnl::_impl::to_rep(Op{}(WL{a}, WR{b})); });
            out.put(ev("OvBin").num("i", id).raw("l", enc(a)).raw("r", enc(b)).raw("res", o == "ok" ? enc(res) : "[0]")
                            .str("out", o).s);
        }
    }
}

template<class Tag, class A>
void run_neg(sink& out, std::vector<A> const& ls)
{
    using Res = decltype(cnl::_impl::operate<cnl::_impl::minus_op, Tag>{}(std::declval<A>()));
    int id = add_inst(
            out, ev("Inst").str("kind", "OvUn").str("op", "neg").str("tag", tagname<Tag>()).str("api", "operate")
                         .str("path", VERIF_PATH).raw("lt", ty<A>()).raw("rt", ty<A>()).raw("res_t", ty<Res>()));
    for (A a : ls) {
        Res res{};
        auto o = guarded([&] { res = cnl::_impl::operate<cnl::_impl::minus_op, Tag>{}(a); });
        out.put(ev("OvUn").num("i", id).raw("l", enc(a)).raw("res", o == "ok" ? enc(res) : "[0]").str("out", o).s);
    }
}

// ++x, x++, --x, x-- on overflow_integer<A, Tag>: the object afterwards and the value the expression returned
template<class Tag, class A>
void run_incdec(sink& out, std::vector<A> const& ls)
{
    using W = cnl::overflow_integer<A, Tag>;
    char const* names[4] = {"preinc", "postinc", "predec", "postdec"};
    for (int k = 0; k < 4; ++k) {
        int id = add_inst(out, ev("Inst").str("kind", "OvInc").str("op", names[k]).str("tag", tagname<Tag>()).str("api", "wrapper")
                                       .str("path", VERIF_PATH).raw("lt", ty<A>()).raw("rt", ty<A>()).raw("res_t", ty<A>()));
        for (A a : ls) {
            W x{a};
            A ret{};
            auto o = guarded([&] {
                switch (k) {
                case 0: ret = cnl::_impl::to_rep(++x); break;
                case 1: ret = cnl::_impl::to_rep(x++); break;
                case 2: ret = cnl::_impl::to_rep(--x); break;
                default: ret = cnl::_impl::to_rep(x--); break;
                }
            });
            out.put(ev("OvInc").num("i", id).raw("l", enc(a)).raw("res", enc(cnl::_impl::to_rep(x))).raw("ret", o == "ok" ? enc(ret) : "[0]").str("out", o).s);
        }
    }
}

template<class Tag, class A, class D>
void run_conv(sink& out, std::vector<A> const& ls)
{
    using Res = decltype(cnl::convert<Tag, D>{}(std::declval<A>()));
    int id = add_inst(
            out, ev("Inst").str("kind", "OvConvInt").str("op", "conv").str("tag", tagname<Tag>()).str("api", "convert")
                         .str("path", VERIF_PATH).raw("lt", ty<A>()).raw("rt", ty<D>()).raw("res_t", ty<Res>()));
    for (A a : ls) {
        Res res{};
        auto o = guarded([&] { res = cnl::convert<Tag, D>{}(a); });
        out.put(ev("OvConvInt").num("i", id).raw("l", enc(a)).raw("res", o == "ok" ? enc(res) : "[0]").str("out", o).s);
    }
}

// construction of overflow_integer<D, Tag> from a value of type A and from overflow_integer<A, Tag>, and the
// wrapper's left shift: the usual ways user code reaches the checked conversion / shift
template<class Tag, class A, class D>
void run_conv_wrapper(sink& out, std::vector<A> const& ls)
{
    using WD = cnl::overflow_integer<D, Tag>;
    using WA = cnl::overflow_integer<A, Tag>;
    int id = add_inst(
            out, ev("Inst").str("kind", "OvConvInt").str("op", "conv").str("tag", tagname<Tag>()).str("api", "wrapper_ctor")
                         .str("path", VERIF_PATH).raw("lt", ty<A>()).raw("rt", ty<D>()).raw("res_t", ty<D>()));
    int id2 = add_inst(
            out, ev("Inst").str("kind", "OvConvInt").str("op", "conv").str("tag", tagname<Tag>()).str("api", "wrapper_to_wrapper")
                         .str("path", VERIF_PATH).raw("lt", ty<A>()).raw("rt", ty<D>()).raw("res_t", ty<D>()));
    for (A a : ls) {
        D res{};
        auto o = guarded([&] { res = cnl::_impl::to_rep(WD{a}); });
        out.put(ev("OvConvInt").num("i", id).raw("l", enc(a)).raw("res", o == "ok" ? enc(res) : "[0]").str("out", o).s);
        o = guarded([&] { res = cnl::_impl::to_rep(WD{WA{a}}); });
        out.put(ev("OvConvInt").num("i", id2).raw("l", enc(a)).raw("res", o == "ok" ? enc(res) : "[0]").str("out", o).s);
    }
}

// floating-point source -> integer destination D under an overflow tag: values around both range bounds
template<class Tag, class F, class D>
void run_conv_float(sink& out)
{
    using Res = decltype(cnl::convert<Tag, D>{}(std::declval<F>()));
    int id = add_inst(
            out, ev("Inst").str("kind", "OvConvF").str("op", "conv").str("tag", tagname<Tag>()).str("api", "convert")
                         .str("path", VERIF_PATH).raw("lt", ty<F>()).raw("rt", ty<D>()).raw("res_t", ty<Res>()));
    std::vector<F> xs;
    F hi = static_cast<F>(std::numeric_limits<D>::max());
    F lo = static_cast<F>(std::numeric_limits<D>::min());
    for (F c : {hi, lo, static_cast<F>(0)}) {
        F x = c;
        for (int k = 0; k < 4; ++k) {
            xs.push_back(x);
            x = std::nextafter(x, std::numeric_limits<F>::infinity());
        }
        x = c;
        for (int k = 0; k < 4; ++k) {
            xs.push_back(x);
            x = std::nextafter(x, -std::numeric_limits<F>::infinity());
        }
        for (F d : {static_cast<F>(0.5), static_cast<F>(1), static_cast<F>(1.5), static_cast<F>(2), static_cast<F>(1000)}) {
            xs.push_back(c + d);
            xs.push_back(c - d);
        }
        xs.push_back(c * 2);
        xs.push_back(c / 2);
    }
    rng r(static_cast<std::uint64_t>(sizeof(F) * 100 + sizeof(D)));
    for (int k = 0; k < (thorough() ? 400 : 30); ++k) {
        F m = static_cast<F>(r.g() >> 11) / static_cast<F>(1ULL << 53);
        xs.push_back(std::ldexp(m, static_cast<int>(r.g() % (sizeof(D) * 8 + 4))) * ((r.g() & 1) ? 1 : -1));
    }
    for (F x : xs) {
        if (!(x == x) || x - x != 0) {
            continue;
        }
        Res res{};
        auto o = guarded([&] { res = cnl::convert<Tag, D>{}(x); });
        out.put(ev("OvConvF").num("i", id).raw("l", enc_float(x)).raw("res", o == "ok" ? enc(res) : "[0]").str("out", o).s);
    }
}

template<class Tag, class R>
void family(sink& out, bool full)
{
    bool const both8 = thorough() && std::is_same_v<Tag, cnl::saturated_overflow_tag>;
    auto ls = values_for<L, R, true>(LHS_INDEX * 100 + 1, both8);
    auto rs = values_for<R, L, false>(LHS_INDEX * 100 + 2, both8);
    using namespace cnl::_impl;
    run_bin<add_op, Tag>(out, "add", ls, rs);
    run_bin<subtract_op, Tag>(out, "sub", ls, rs);
    run_bin<multiply_op, Tag>(out, "mul", ls, rs);
    run_bin<divide_op, Tag>(out, "div", ls, rs);
    // shifts: boundary lhs only (counts are enumerated 0..130 and max)
    auto bl = (thorough() && !both8) ? boundary<L>(0) : boundary<L>(1);
    run_bin<shift_left_op, Tag>(out, "shl", bl, shift_counts<R>());
    run_conv<Tag, L, R>(out, operands<L>(thorough() ? 40 : 20, LHS_INDEX * 100 + 4, 1));
    run_conv_wrapper<Tag, L, R>(out, operands<L>(thorough() ? 20 : 10, LHS_INDEX * 100 + 5, 1));
    if (full) {
        auto bls = boundary<L>(0);
        auto brs = boundary<R>(0);
        run_bin_wrapper<add_op, Tag>(out, "add", bls, brs);
        run_bin_wrapper<subtract_op, Tag>(out, "sub", bls, brs);
        run_bin_wrapper<multiply_op, Tag>(out, "mul", bls, brs);
        run_bin_wrapper<divide_op, Tag>(out, "div", bls, brs);
        run_bin_wrapper<shift_left_op, Tag>(out, "shl", bls, shift_counts<R>());
    }
}

template<class R>
void for_rhs(sink& out, int ridx)
{
    // saturated on every pairing; the other tags on a rotating subset in the quick tier, all in thorough
    bool more = thorough() || ((LHS_INDEX + ridx + static_cast<int>(seed())) % 4 == 0);
    family<cnl::saturated_overflow_tag, R>(out, more);
    if (more) {
        family<cnl::_impl::throwing_overflow_tag, R>(out, thorough());
        family<cnl::trapping_overflow_tag, R>(out, thorough());
        family<cnl::native_overflow_tag, R>(out, false);
    }
}

int main(int argc, char** argv)
{
    if (argc < 2) {
        return 64;
    }
    install();
    sink out(argv[1], std::string("\"cc\":\"") + VERIF_CC + "\"");
    run_conv_float<cnl::saturated_overflow_tag, float, L>(out);
    run_conv_float<cnl::saturated_overflow_tag, double, L>(out);
    run_conv_float<cnl::saturated_overflow_tag, long double, L>(out);
    run_conv_float<cnl::_impl::throwing_overflow_tag, float, L>(out);
    run_conv_float<cnl::trapping_overflow_tag, double, L>(out);
    auto nl = sizeof(L) == 1 ? all_values_or_boundary<L>() : operands<L>(thorough() ? 200 : 20, LHS_INDEX * 100 + 3, thorough() ? 2 : 1);
    run_neg<cnl::saturated_overflow_tag>(out, nl);
    run_neg<cnl::_impl::throwing_overflow_tag>(out, nl);
    run_neg<cnl::trapping_overflow_tag>(out, nl);
    run_neg<cnl::native_overflow_tag>(out, nl);
    if constexpr (sizeof(L) <= 8) {
        run_incdec<cnl::saturated_overflow_tag>(out, nl);
        run_incdec<cnl::_impl::throwing_overflow_tag>(out, nl);
        run_incdec<cnl::trapping_overflow_tag>(out, nl);
    }
    for_rhs<std::int8_t>(out, 0);
    for_rhs<std::uint8_t>(out, 1);
    for_rhs<std::int16_t>(out, 2);
    for_rhs<std::uint16_t>(out, 3);
    for_rhs<std::int32_t>(out, 4);
    for_rhs<std::uint32_t>(out, 5);
    for_rhs<std::int64_t>(out, 6);
    for_rhs<std::uint64_t>(out, 7);
    for_rhs<i128>(out, 8);
    for_rhs<u128>(out, 9);
    std::fprintf(stderr, "events=%llu insts=%d\n", out.n, out.ninst);
    return 0;
}
