// Recorder for text output (C13 buffer discipline, C14 text denotes the value): cnl::to_chars into a
// buffer whose end coincides with a PROT_NONE page (any write past `last` faults at once) and whose
// start is preceded by canary bytes; to_chars_static / to_string / operator<< recorded next to it.
// TEXT_SET selects a group of instantiations.
#include "describe.hpp"

#include <sstream>
#include <sys/mman.h>

using namespace vf;

struct guarded_buffer {
    char* base = nullptr;      // start of the writable page(s)
    char* end = nullptr;       // end of the writable region == start of the PROT_NONE page
    std::size_t len = 0;
    guarded_buffer()
    {
        long ps = sysconf(_SC_PAGESIZE);
        len = static_cast<std::size_t>(ps);
        char* m = static_cast<char*>(mmap(nullptr, len * 3, PROT_READ | PROT_WRITE, MAP_PRIVATE | MAP_ANONYMOUS, -1, 0));
        if (m == MAP_FAILED) {
            std::perror("mmap");
            std::exit(73);
        }
        mprotect(m, len, PROT_NONE);
        mprotect(m + 2 * len, len, PROT_NONE);
        base = m + len;
        end = m + 2 * len;
    }
};

inline std::string bytes_json(char const* p, std::size_t n)
{
    std::string s = "[";
    for (std::size_t k = 0; k < n; ++k) {
        if (k) {
            s += ',';
        }
        s += std::to_string(static_cast<unsigned char>(p[k]));
    }
    return s + "]";
}

struct tc_obs {
    std::string out;
    long off = 0;
    int ec = 0;
    std::string txt;
    bool pre_ok = true;
    bool tail_ok = true;
};

// runs to_chars(first, first+cap, v[, base]) twice with different fill patterns
template<class F>
tc_obs observe(guarded_buffer& gb, int cap, F&& call)
{
    tc_obs r;
    constexpr int pre = 64;
    char* last = gb.end;
    char* first = last - cap;
    std::string text[2];
    for (int pass = 0; pass < 2; ++pass) {
        char fillc = pass ? '\x5A' : '\xA5';
        std::memset(first - pre, fillc, static_cast<std::size_t>(cap + pre));
        std::to_chars_result res{nullptr, std::errc{}};
        auto o = guarded([&] { res = call(first, last); }, 300);
        if (o != "ok") {
            r.out = o;
            return r;
        }
        r.out = "ok";
        r.off = res.ptr ? static_cast<long>(res.ptr - first) : -1000000;
        r.ec = res.ec == std::errc{} ? 0 : res.ec == std::errc::value_too_large ? 1 : 2;
        for (int k = 1; k <= pre; ++k) {
            if (first[-k] != fillc) {
                r.pre_ok = false;
            }
        }
        if (r.ec == 0 && r.off >= 0 && r.off <= cap) {
            for (long k = r.off; k < cap; ++k) {
                if (first[k] != fillc) {
                    r.tail_ok = false;
                }
            }
            text[pass] = std::string(first, static_cast<std::size_t>(r.off));
        }
    }
    if (text[0] != text[1]) {
        r.tail_ok = false;      // some byte of [first,p) was not written
    }
    r.txt = text[0];
    return r;
}

template<class T>
std::vector<int> caps_for(int capacity)
{
    std::vector<int> c;
    if (capacity <= 12 || (thorough() && capacity <= 24)) {
        for (int k = 0; k <= capacity + 2; ++k) {
            c.push_back(k);
        }
    } else {
        for (int k : {0, 1, 2, 3, 4, 5, 6, 7, 8, 10, 12, 16, 20, capacity / 2, capacity - 2, capacity - 1, capacity, capacity + 1, capacity + 2}) {
            if (k >= 0 && k <= capacity + 2 && std::find(c.begin(), c.end(), k) == c.end()) {
                c.push_back(k);
            }
        }
    }
    return c;
}

template<class T>
std::vector<T> text_values(std::uint64_t salt)
{
    using I = innermost_t<T>;
    if constexpr (std::is_integral_v<I> || std::is_same_v<I, i128> || std::is_same_v<I, u128>) {
        if constexpr (sizeof(I) == 1) {
            std::vector<T> v;
            for (I x : all_values<I>()) {
                if (x >= cnl::unwrap(std::numeric_limits<T>::lowest()) && x <= cnl::unwrap(std::numeric_limits<T>::max())) {
                    v.push_back(make<T>(x < 0, x < 0 ? static_cast<u128>(-static_cast<int>(x)) : static_cast<u128>(x)));
                }
            }
            return v;
        } else if constexpr (sizeof(I) == 2) {
            if (thorough()) {
                // every 16th 16-bit value (offset by the salt) and the 64 values next to each end
                std::vector<T> v;
                long const lo = std::numeric_limits<I>::min(), hi = std::numeric_limits<I>::max();
                long const lo_t = static_cast<long>(cnl::unwrap(std::numeric_limits<T>::lowest())), hi_t = static_cast<long>(cnl::unwrap(std::numeric_limits<T>::max()));
                for (long x = lo; x <= hi; ++x) {
                    if (x < lo_t || x > hi_t) {
                        continue;
                    }
                    if ((x - lo) % 16 == static_cast<long>(salt % 16) || x - lo_t < 64 || hi_t - x < 64 || (x > -40 && x < 40)) {
                        v.push_back(make<T>(x < 0, static_cast<u128>(x < 0 ? -x : x)));
                    }
                }
                return v;
            }
        }
        return number_values<T>(thorough() ? 60 : 6, salt, thorough() ? 2 : 1);
    } else {
        return {};
    }
}

// scaled_integer: dynamic buffer of every length, static variants
template<class T>
void text_scaled(sink& out, guarded_buffer& gb, std::uint64_t salt)
{
    constexpr int capacity = cnl::_impl::to_chars_capacity<T>{}();
    int id = add_inst(out, ev("Inst").str("kind", "Tc").str("op", "to_chars").num("base", 10).num("capacity", capacity).raw("lt", desc<T>())
                                   .raw("rt", desc<T>()).raw("res_t", desc<T>()));
    int sid = add_inst(out, ev("Inst").str("kind", "TcStatic").str("op", "static").num("base", 10).num("capacity", capacity).raw("lt", desc<T>())
                                    .raw("rt", desc<T>()).raw("res_t", desc<T>()));
    auto caps = caps_for<T>(capacity);
    int timeouts = 0;
    for (auto const& v : text_values<T>(salt)) {
        if (timeouts >= 4) {
            break;      // this instantiation does not terminate for large magnitudes: a few recorded events suffice
        }
        for (int cap : caps) {
            if (timeouts >= 4) {
                break;
            }
            auto r = observe(gb, cap, [&](char* f, char* l) { return cnl::to_chars(f, l, v); });
            if (r.out == "timeout") {
                ++timeouts;
            }
            out.put(ev("Tc").num("i", id).raw("v", raw(v)).num("cap", cap).num("off", r.off).num("ec", r.ec)
                            .raw("txt", bytes_json(r.txt.data(), r.txt.size())).num("pre_ok", r.pre_ok).num("tail_ok", r.tail_ok)
                            .str("out", r.out).s);
        }
        // fixed-capacity variants next to to_chars with the static capacity
        std::string st, ss, so, sd;
        auto o = guarded([&] {
            auto rs = cnl::to_chars_static(v);
            st = std::string(rs.chars.data(), static_cast<std::size_t>(rs.length));
            ss = cnl::to_string(v);
            std::ostringstream os;
            os << v;
            so = os.str();
        }, 300);
        auto rd = observe(gb, capacity, [&](char* f, char* l) { return cnl::to_chars(f, l, v); });
        out.put(ev("TcStatic").num("i", sid).raw("v", raw(v)).raw("static", bytes_json(st.data(), st.size()))
                        .raw("string", bytes_json(ss.data(), ss.size())).raw("stream", bytes_json(so.data(), so.size()))
                        .raw("txt", bytes_json(rd.txt.data(), rd.txt.size())).num("ec", rd.ec).str("out", o == "ok" ? rd.out : o).s);
    }
}

// integers (built-in, 128-bit, wrappers): every base in the list
template<class T>
void text_integer_vals(sink& out, guarded_buffer& gb, std::vector<T> const& vs);

template<class T>
void text_integer(sink& out, guarded_buffer& gb, std::uint64_t salt)
{
    text_integer_vals<T>(out, gb, text_values<T>(salt));
}

// wide_integer beyond 128 bits: powers of ten and their neighbours (digit-count boundaries), limb-structured and random
// values, both extremes (the value logged is read back from the object's limbs)
template<class W>
void text_wide(sink& out, guarded_buffer& gb, std::uint64_t salt)
{
    constexpr int D = cnl::digits_v<W>;
    constexpr bool S = cnl::numbers::signedness_v<W>;
    std::vector<W> vs;
    auto both = [&](W const& v) {
        vs.push_back(v);
        if constexpr (S) {
            vs.push_back(W(-v));
        }
    };
    both(make<W>(false, 0));
    both(make<W>(false, 1));
    both(make<W>(false, 9));
    both(make<W>(false, 10));
    W const ten = make<W>(false, 10);
    W p = make<W>(false, 1);
    for (int k = 1; (k + 1) * 3322 / 1000 + 1 < D; ++k) {
        p = W(p * ten);
        if (k % 7 == 0 || k == 19 || k == 20 || k == 38 || k == 39 || (k + 2) * 3322 / 1000 + 1 >= D) {
            both(p);
            both(W(p - make<W>(false, 1)));
            both(W(p + make<W>(false, 1)));
        }
    }
    rng r(salt);
    for (int k = 0; k < (thorough() ? 40 : 8); ++k) {
        W v = make<W>(false, (static_cast<u128>(r.g()) << 64) | r.g());
        int sh = static_cast<int>(r.g() % static_cast<unsigned>(D > 130 ? D - 129 : 1));
        v = W(v << sh);
        v = W(v + make<W>(false, r.g()));
        both(v);
    }
    vs.push_back(std::numeric_limits<W>::max());
    vs.push_back(std::numeric_limits<W>::lowest());
    vs.push_back(W(std::numeric_limits<W>::max() - make<W>(false, 1)));
    if constexpr (S) {
        // the longest texts of the type: every decimal digit plus the sign
        vs.push_back(W(-std::numeric_limits<W>::max()));
        vs.push_back(W(-(std::numeric_limits<W>::max() - make<W>(false, 1))));
    }
    text_integer_vals<W>(out, gb, vs);
}

template<class T>
void text_integer_vals(sink& out, guarded_buffer& gb, std::vector<T> const& vs)
{
    for (int base : {10, 2, 8, 16, 36}) {
        int need = static_cast<int>(sizeof(innermost_t<T>) * 8) + 2;       // enough for base 2 with sign
        int capacity = base == 10 ? cnl::_impl::to_chars_capacity<T>{}(10) : need;
        int id = add_inst(out, ev("Inst").str("kind", "Tc").str("op", "to_chars").num("base", base).num("capacity", capacity).raw("lt", desc<T>())
                                       .raw("rt", desc<T>()).raw("res_t", desc<T>()));
        std::vector<int> caps = base == 10 ? caps_for<T>(capacity) : std::vector<int>{0, 1, 2, 3, 5, 8, need / 2, need - 1, need};
        std::size_t stride = (base == 10 || thorough()) ? 1 : 3;
        for (std::size_t k = 0; k < vs.size(); k += stride) {
            auto const& v = vs[k];
            for (int cap : caps) {
                auto r = observe(gb, cap, [&](char* f, char* l) { return cnl::to_chars(f, l, v, base); });
                out.put(ev("Tc").num("i", id).raw("v", raw(v)).num("cap", cap).num("off", r.off).num("ec", r.ec)
                                .raw("txt", bytes_json(r.txt.data(), r.txt.size())).num("pre_ok", r.pre_ok).num("tail_ok", r.tail_ok)
                                .str("out", r.out).s);
            }
        }
    }
    int sid = add_inst(out, ev("Inst").str("kind", "TcStatic").str("op", "static").num("base", 10).num("capacity", cnl::_impl::to_chars_capacity<T>{}(10))
                                    .raw("lt", desc<T>()).raw("rt", desc<T>()).raw("res_t", desc<T>()));
    for (auto const& v : vs) {
        std::string st, so;
        auto o = guarded([&] {
            auto rs = cnl::to_chars_static(v);
            st = std::string(rs.chars.data(), static_cast<std::size_t>(rs.length));
            if constexpr (!std::is_integral_v<T>) {
                std::ostringstream os;
                os << v;
                so = os.str();
            } else {
                so = st;
            }
        }, 300);
        int capacity = cnl::_impl::to_chars_capacity<T>{}(10);
        auto rd = observe(gb, capacity, [&](char* f, char* l) { return cnl::to_chars(f, l, v); });
        out.put(ev("TcStatic").num("i", sid).raw("v", raw(v)).raw("static", bytes_json(st.data(), st.size()))
                        .raw("string", bytes_json(st.data(), st.size())).raw("stream", bytes_json(so.data(), so.size()))
                        .raw("txt", bytes_json(rd.txt.data(), rd.txt.size())).num("ec", rd.ec).str("out", o == "ok" ? rd.out : o).s);
    }
}

template<class Rep, int E, int R = 2>
using SI = cnl::scaled_integer<Rep, cnl::power<E, R>>;

int main(int argc, char** argv)
{
    if (argc < 2) {
        return 64;
    }
    install();
    sink out(argv[1], std::string("\"cc\":\"") + VERIF_CC + "\"");
    guarded_buffer gb;
    using i8 = std::int8_t;
    using u8 = std::uint8_t;
    using i16 = std::int16_t;
    using u16 = std::uint16_t;
    using i32 = std::int32_t;
    using u32 = std::uint32_t;
    using i64 = std::int64_t;
    using u64 = std::uint64_t;
#include VERIF_INST_FILE
    std::fprintf(stderr, "events=%llu insts=%d\n", out.n, out.ninst);
    return 0;
}
