// Recorder for the scaled_integer family (C01, C02, C03, C04, parts of C05/C12): arithmetic, comparison
// and conversion on pairs of number types listed in the generated instantiation file VERIF_INST_FILE
// (rows produced from the lattice that TLC enumerates from spec/gen/GenLattice.tla).
#include "describe.hpp"

using namespace vf;

template<class T>
bool raw_is_zero(T const& x)
{
    return raw(x) == "[0]";
}

template<class Op, class LT, class RT>
void bin(sink& out, char const* opn, std::vector<LT> const& ls, std::vector<RT> const& rs)
{
    if constexpr (requires(LT a, RT b) { Op{}(a, b); }) {
        using Res = decltype(Op{}(std::declval<LT>(), std::declval<RT>()));
        int id = add_inst(out, ev("Inst").str("kind", "ScBin").str("op", opn).raw("lt", desc<LT>()).raw("rt", desc<RT>())
                                       .raw("res_t", desc<Res>()));
        bool divlike = std::string(opn) == "div" || std::string(opn) == "mod";
        for (auto const& a : ls) {
            for (auto const& b : rs) {
                if (divlike && raw_is_zero(b)) {
                    continue;
                }
                Res res{};
                auto o = guarded([&] { res = Op{}(a, b); });
                out.put(ev("ScBin").num("i", id).raw("l", raw(a)).raw("r", raw(b)).raw("res", o == "ok" ? raw(res) : "[0]")
                                .str("out", o).s);
            }
        }
    }
}

// compound assignment next to "binary operator, then conversion back to the left type" (both by the library; the binary
// operator itself is judged by the ScBin events): x op= b must leave x equal to static_cast<LT>(a op b)
template<class T>
constexpr int exp_of()
{
    if constexpr (std::is_integral_v<T>) {
        return 0;
    } else {
        return cnl::_impl::tag_of_t<T>::exponent;
    }
}

template<int K, class LT, class RT>
void assign(sink& out, char const* opn, std::vector<LT> const& ls, std::vector<RT> const& rs)
{
    // the conversion back to the left type shifts by the right operand's exponent (*, /) or the exponent difference (+, -, %):
    // only pairs for which that conversion exists in the library (power_value static_asserts beyond the digits of int)
    constexpr int er = exp_of<RT>(), el = exp_of<LT>();
    constexpr bool convertible = (er < 0 ? -er : er) <= 16 && ((el - er) < 0 ? er - el : el - er) <= 16;
    if constexpr (!std::is_integral_v<LT> && convertible) {      // (nested: the requires-expression below must not even be formed otherwise)
      if constexpr (requires(LT x, RT b) { x += b; x -= b; x *= b; x /= b; x %= b; static_cast<LT>(x + b); }) {
        int id = add_inst(out, ev("Inst").str("kind", "ScAssign").str("op", opn).raw("lt", desc<LT>()).raw("rt", desc<RT>()).raw("res_t", desc<LT>()));
        for (auto const& a : ls) {
            for (auto const& b : rs) {
                if (K >= 3 && raw_is_zero(b)) {
                    continue;
                }
                LT x = a, y = a;
                auto o1 = guarded([&] {
                    if constexpr (K == 0) { x += b; } else if constexpr (K == 1) { x -= b; } else if constexpr (K == 2) { x *= b; }
                    else if constexpr (K == 3) { x /= b; } else { x %= b; }
                });
                auto o2 = guarded([&] {
                    if constexpr (K == 0) { y = static_cast<LT>(a + b); } else if constexpr (K == 1) { y = static_cast<LT>(a - b); }
                    else if constexpr (K == 2) { y = static_cast<LT>(a * b); } else if constexpr (K == 3) { y = static_cast<LT>(a / b); }
                    else { y = static_cast<LT>(a % b); }
                });
                out.put(ev("ScAssign").num("i", id).raw("l", raw(a)).raw("r", raw(b)).raw("res", raw(x)).raw("ref", raw(y)).str("out", o1).str("refout", o2).s);
            }
        }
      }
    }
}

template<class LT>
void neg(sink& out, std::vector<LT> const& ls)
{
    if constexpr (requires(LT a) { -a; }) {
        using Res = decltype(-std::declval<LT>());
        int id = add_inst(out, ev("Inst").str("kind", "ScUn").str("op", "neg").raw("lt", desc<LT>()).raw("rt", desc<LT>())
                                       .raw("res_t", desc<Res>()));
        for (auto const& a : ls) {
            Res res{};
            auto o = guarded([&] { res = -a; });
            out.put(ev("ScUn").num("i", id).raw("l", raw(a)).raw("res", o == "ok" ? raw(res) : "[0]").str("out", o).s);
        }
    }
}

template<class LT, class RT>
void cmp(sink& out, std::vector<LT> const& ls, std::vector<RT> const& rs)
{
    if constexpr (requires(LT a, RT b) { a < b; a == b; }) {
        int id = add_inst(out, ev("Inst").str("kind", "ScCmp").str("op", "cmp").raw("lt", desc<LT>()).raw("rt", desc<RT>())
                                       .raw("res_t", desc<bool>()));
        for (auto const& a : ls) {
            for (auto const& b : rs) {
                bool r[6] = {};
                auto o = guarded([&] {
                    r[0] = a < b;
                    r[1] = a <= b;
                    r[2] = a > b;
                    r[3] = a >= b;
                    r[4] = a == b;
                    r[5] = a != b;
                });
                char buf[32];
                std::snprintf(buf, sizeof(buf), "[%d,%d,%d,%d,%d,%d]", r[0], r[1], r[2], r[3], r[4], r[5]);
                out.put(ev("ScCmp").num("i", id).raw("l", raw(a)).raw("r", raw(b)).raw("c", buf).str("out", o).s);
            }
        }
    }
}

// (a/b)*b + a%b == a evaluated by the library itself
template<class LT, class RT>
void ident(sink& out, std::vector<LT> const& ls, std::vector<RT> const& rs)
{
    if constexpr (requires(LT a, RT b) { (a / b) * b + a % b == a; }) {
        int id = add_inst(out, ev("Inst").str("kind", "ScIdent").str("op", "ident").raw("lt", desc<LT>()).raw("rt", desc<RT>())
                                       .raw("res_t", desc<bool>()));
        for (auto const& a : ls) {
            for (auto const& b : rs) {
                if (raw_is_zero(b)) {
                    continue;
                }
                bool r = false;
                auto o = guarded([&] { r = ((a / b) * b + a % b == a); });
                out.put(ev("ScIdent").num("i", id).raw("l", raw(a)).raw("r", raw(b)).num("c", r ? 1 : 0).str("out", o).s);
            }
        }
    }
}

// cnl::quotient(a, b): the true quotient truncated toward zero at the result resolution (C02)
template<class LT, class RT>
void quot(sink& out, std::vector<LT> const& ls, std::vector<RT> const& rs)
{
    if constexpr (requires(LT a, RT b) { cnl::quotient(a, b); }) {
        using Res = decltype(cnl::quotient(std::declval<LT>(), std::declval<RT>()));
        int id = add_inst(out, ev("Inst").str("kind", "ScQuot").str("op", "quotient").raw("lt", desc<LT>()).raw("rt", desc<RT>())
                                       .raw("res_t", desc<Res>()));
        for (auto const& a : ls) {
            for (auto const& b : rs) {
                if (raw_is_zero(b)) {
                    continue;
                }
                Res res{};
                auto o = guarded([&] { res = cnl::quotient(a, b); });
                out.put(ev("ScQuot").num("i", id).raw("l", raw(a)).raw("r", raw(b)).raw("res", o == "ok" ? raw(res) : "[0]")
                                .str("out", o).s);
            }
        }
    }
}

template<class Src, class Dst>
void conv(sink& out, std::vector<Src> const& ss)
{
    if constexpr (requires(Src s) { static_cast<Dst>(s); }) {
        int id = add_inst(out, ev("Inst").str("kind", "ScConv").str("op", "conv").raw("lt", desc<Src>()).raw("rt", desc<Dst>())
                                       .raw("res_t", desc<Dst>()));
        for (auto const& a : ss) {
            Dst res{};
            auto o = guarded([&] { res = static_cast<Dst>(a); });
            std::string lv, rv;
            if constexpr (std::is_floating_point_v<Src>) {
                lv = enc_float(a);
            } else {
                lv = raw(a);
            }
            if constexpr (std::is_floating_point_v<Dst>) {
                rv = o == "ok" ? enc_float(res) : "[0]";
            } else {
                rv = o == "ok" ? raw(res) : "[0]";
            }
            out.put(ev("ScConv").num("i", id).raw("l", lv).raw("res", rv).str("out", o).s);
        }
    }
}

// from_rep/to_rep and wrap/unwrap round trips, recorded as raw values before and after
template<class T>
void roundtrip(sink& out, std::vector<T> const& vs)
{
    if constexpr (!std::is_integral_v<T>) {
        int id = add_inst(out, ev("Inst").str("kind", "ScRoundTrip").str("op", "roundtrip").raw("lt", desc<T>()).raw("rt", desc<T>())
                                       .raw("res_t", desc<T>()));
        for (auto const& a : vs) {
            T r1{}, r2{};
            auto o = guarded([&] {
                r1 = cnl::_impl::from_rep<T>(cnl::_impl::to_rep(a));
                r2 = cnl::wrap<T>(cnl::unwrap(a));
            });
            out.put(ev("ScRoundTrip").num("i", id).raw("l", raw(a)).raw("res", raw(r1)).raw("res2", raw(r2)).str("out", o).s);
        }
    }
}

// floating-point stimuli for a destination type: multiples, halves and neighbours of the destination's
// own values (the exact value of every stimulus is logged, so nothing here is an oracle)
template<class F, class Dst>
std::vector<F> float_values(std::vector<Dst> const& ds)
{
    std::vector<F> v;
    for (auto const& d : ds) {
        F f = 0;
        auto o = guarded([&] { f = static_cast<F>(d); });
        if (o != "ok" || f != f || f - f != 0) {
            continue;
        }
        v.push_back(f);
        v.push_back(std::nextafter(f, std::numeric_limits<F>::infinity()));
        v.push_back(std::nextafter(f, -std::numeric_limits<F>::infinity()));
    }
    return v;
}

// quotient() is exercised for radix-2 scaled_integers (its result scale is a power of two)
template<class T>
inline constexpr bool QUOTIENT_OK = false;
template<class Rep, int E>
inline constexpr bool QUOTIENT_OK<cnl::scaled_integer<Rep, cnl::power<E, 2>>> = sizeof(innermost_t<Rep>) <= 8;      // 128-bit reps would need 256 digits

template<class LT, class RT>
void pair_all(sink& out, int salt)
{
    // the thorough tier's breadth is in its instantiations (330 lattice rows); operand sets grow only by random values
    int nr = thorough() ? 6 : 2;
    bool const ex8 = salt % 8 == 0;      // every 8th instantiation: 8-bit representations over all their values
    auto ls = number_values<LT>(nr, static_cast<std::uint64_t>(salt) * 10 + 1, 0, ex8);
    auto rs = number_values<RT>(nr, static_cast<std::uint64_t>(salt) * 10 + 2, 0, ex8);
    using namespace cnl::_impl;
    bin<add_op>(out, "add", ls, rs);
    bin<subtract_op>(out, "sub", ls, rs);
    bin<multiply_op>(out, "mul", ls, rs);
    bin<divide_op>(out, "div", ls, rs);
    bin<modulo_op>(out, "mod", ls, rs);
    assign<0>(out, "add", ls, rs);
    assign<1>(out, "sub", ls, rs);
    assign<2>(out, "mul", ls, rs);
    assign<3>(out, "div", ls, rs);
    assign<4>(out, "mod", ls, rs);
    cmp(out, ls, rs);
    ident(out, ls, rs);
    if constexpr (QUOTIENT_OK<LT> && QUOTIENT_OK<RT>) {
        quot(out, ls, rs);
    }
    auto lw = number_values<LT>(thorough() ? 40 : 12, static_cast<std::uint64_t>(salt) * 10 + 5, 1, false);
    auto rw = number_values<RT>(thorough() ? 40 : 12, static_cast<std::uint64_t>(salt) * 10 + 6, 1, false);
    if constexpr (!std::is_integral_v<LT>) {
        neg(out, lw);
        roundtrip(out, lw);
    }
    conv<LT, RT>(out, lw);
    conv<RT, LT>(out, rw);
}

// comparisons only (plain elastic_integer pairs of different width / signedness, C03)
template<class LT, class RT>
void cmp_all(sink& out, int salt)
{
    int nr = thorough() ? 20 : 6;
    auto ls = number_values<LT>(nr, static_cast<std::uint64_t>(salt) * 10 + 7, thorough() ? 1 : 0, false);
    auto rs = number_values<RT>(nr, static_cast<std::uint64_t>(salt) * 10 + 8, thorough() ? 1 : 0, false);
    cmp(out, ls, rs);
    cmp(out, rs, ls);
}

// representations that sit on, just below and just above a rounding tie of a p-bit significand (p = 24, 53, 64),
// with the kept least significant bit both clear and set: the inputs on which a conversion that rounds twice
// (or truncates) differs from the correctly rounded one
template<class T>
std::vector<T> near_tie_values()
{
    using I = innermost_t<T>;
    std::vector<T> out;
    int const D = cnl::digits_v<T>;
    u128 const hi = static_cast<u128>(cnl::unwrap(std::numeric_limits<T>::max()));
    for (int p : {24, 53, 64}) {
        for (int top : {p + 1, p + 2, p + 5, p + 13, D - 1, D}) {
            if (top <= p || top > D) {
                continue;
            }
            u128 const base = static_cast<u128>(1) << (top - 1);
            u128 const half = static_cast<u128>(1) << (top - p - 1);
            for (int lsb = 0; lsb < 2; ++lsb) {
                for (int delta = -1; delta <= 1; ++delta) {
                    u128 v = base | (lsb ? (half << 1) : 0) | half;
                    v = delta < 0 ? v - 1 : delta > 0 ? v + 1 : v;
                    if (v > hi) {
                        continue;
                    }
                    out.push_back(make<T>(false, v));
                    if constexpr (is_signed_int<I>) {
                        out.push_back(make<T>(true, v));
                    }
                }
            }
        }
    }
    return out;
}

// quotient() only (pairs whose exponents are too far apart for the other operators / conversions to compile)
template<class LT, class RT>
void quot_all(sink& out, int salt)
{
    auto ls = number_values<LT>(thorough() ? 20 : 6, static_cast<std::uint64_t>(salt) * 10 + 1, 1, false);
    auto rs = number_values<RT>(thorough() ? 20 : 6, static_cast<std::uint64_t>(salt) * 10 + 2, 1, false);
    quot(out, ls, rs);
}

// conversions only, both directions (pairs of different radix: the arithmetic operators do not mix radices)
template<class LT, class RT>
void conv_all(sink& out, int salt)
{
    auto lw = number_values<LT>(thorough() ? 60 : 16, static_cast<std::uint64_t>(salt) * 10 + 5, 1, false);
    auto rw = number_values<RT>(thorough() ? 60 : 16, static_cast<std::uint64_t>(salt) * 10 + 6, 1, false);
    for (long long k = -1300; k <= 1300; k += 97) {      // small values survive every scaling step
        using LI = innermost_t<LT>;
        using RI = innermost_t<RT>;
        if (k >= 0 || is_signed_int<LI>) {
            if (static_cast<i128>(k) >= static_cast<i128>(cnl::unwrap(std::numeric_limits<LT>::lowest())) && static_cast<i128>(k) <= static_cast<i128>(cnl::unwrap(std::numeric_limits<LT>::max()))) {
                lw.push_back(make<LT>(k < 0, static_cast<u128>(k < 0 ? -k : k)));
            }
        }
        if (k >= 0 || is_signed_int<RI>) {
            if (static_cast<i128>(k) >= static_cast<i128>(cnl::unwrap(std::numeric_limits<RT>::lowest())) && static_cast<i128>(k) <= static_cast<i128>(cnl::unwrap(std::numeric_limits<RT>::max()))) {
                rw.push_back(make<RT>(k < 0, static_cast<u128>(k < 0 ? -k : k)));
            }
        }
    }
    conv<LT, RT>(out, lw);
    conv<RT, LT>(out, rw);
}

template<class T>
void single_all(sink& out, int salt)
{
    int nr = thorough() ? 100 : 12;
    auto vs = number_values<T>(nr, static_cast<std::uint64_t>(salt) * 10 + 3, thorough() ? 2 : 1);
    for (auto const& v : near_tie_values<T>()) {
        vs.push_back(v);
    }
    conv<T, float>(out, vs);
    conv<T, double>(out, vs);
    conv<T, long double>(out, vs);
    auto small = number_values<T>(thorough() ? 20 : 4, static_cast<std::uint64_t>(salt) * 10 + 4, thorough() ? 1 : 0);
    conv<float, T>(out, float_values<float>(small));
    conv<double, T>(out, float_values<double>(small));
    conv<long double, T>(out, float_values<long double>(small));
}

template<class Rep, int E, int R>
using SI = cnl::scaled_integer<Rep, cnl::power<E, R>>;

int main(int argc, char** argv)
{
    if (argc < 2) {
        return 64;
    }
    install();
    sink out(argv[1], std::string("\"cc\":\"") + VERIF_CC + "\"");
    using i8 = std::int8_t;
    using u8 = std::uint8_t;
    using i16 = std::int16_t;
    using u16 = std::uint16_t;
    using i32 = std::int32_t;
    using u32 = std::uint32_t;
    using i64 = std::int64_t;
    using u64 = std::uint64_t;
#include VERIF_INST_FILE
    std::fprintf(stderr, "events=%llu insts=%d\n", out.n, out.ninst);
    return 0;
}
