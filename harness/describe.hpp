// Type descriptors and raw-value access for any cnl number type, using only what the library itself
// deduced (tags, reps, digits_v, numeric_limits).  A descriptor is a nested JSON record:
//   {"k":"int","w":32,"s":1} | {"k":"multi","w":128,"s":1,"limb":32} | {"k":"float","p":24}
//   {"k":"scaled","e":-8,"r":2,"rep":D} | {"k":"elastic","d":7,"rep":D} | {"k":"wide","d":100,"rep":D}
//   {"k":"overflow","tag":"saturated","rep":D} | {"k":"rounding","tag":"nearest","rep":D}
// plus "digits" (cnl::digits_v) and "sg" (numbers::signedness_v) at every level.
#pragma once
#include "verif.hpp"

namespace vf {
    template<class T>
    struct describe;

    template<class T>
    std::string desc()
    {
        return describe<std::remove_cvref_t<T>>::str();
    }

    template<class T>
    std::string facts()
    {
        return std::string(",\"digits\":") + std::to_string(cnl::digits_v<T>) + ",\"sg\":"
             + (cnl::numbers::signedness_v<T> ? "1" : "0");
    }

    template<class T>
    requires(std::is_integral_v<T> || std::is_same_v<T, i128> || std::is_same_v<T, u128>) struct describe<T> {
        static std::string str()
        {
            return std::string("{\"k\":\"int\",\"w\":") + std::to_string(sizeof(T) * 8) + ",\"s\":"
                 + (is_signed_int<T> ? "1" : "0") + facts<T>() + "}";
        }
    };

    template<class T>
    requires std::is_floating_point_v<T>
    struct describe<T> {
        static std::string str()
        {
            return std::string("{\"k\":\"float\",\"p\":") + std::to_string(std::numeric_limits<T>::digits) + "}";
        }
    };

    template<std::uint32_t W, class Limb, class A, bool S>
    struct describe<cnl::_impl::math::wide_integer::uintwide_t<W, Limb, A, S>> {
        using T = cnl::_impl::math::wide_integer::uintwide_t<W, Limb, A, S>;
        static std::string str()
        {
            return std::string("{\"k\":\"multi\",\"w\":") + std::to_string(W) + ",\"s\":" + (S ? "1" : "0")
                 + ",\"limb\":" + std::to_string(sizeof(Limb) * 8) + facts<T>() + "}";
        }
    };

    template<class Tag>
    struct tagdesc;
    template<int E, int R>
    struct tagdesc<cnl::power<E, R>> {
        static std::string str()
        {
            return "\"k\":\"scaled\",\"e\":" + std::to_string(E) + ",\"r\":" + std::to_string(R);
        }
    };
    template<int D, class N>
    struct tagdesc<cnl::elastic_tag<D, N>> {
        static std::string str()
        {
            return "\"k\":\"elastic\",\"d\":" + std::to_string(D) + ",\"narrowest\":" + desc<N>();
        }
    };
    template<int D, class N>
    struct tagdesc<cnl::wide_tag<D, N>> {
        static std::string str()
        {
            return "\"k\":\"wide\",\"d\":" + std::to_string(D) + ",\"narrowest\":" + desc<N>();
        }
    };
#define VF_TAG(TAG, KIND, NAME) \
    template<> \
    struct tagdesc<TAG> { \
        static std::string str() \
        { \
            return "\"k\":\"" KIND "\",\"tag\":\"" NAME "\""; \
        } \
    };
    VF_TAG(cnl::native_overflow_tag, "overflow", "native")
    VF_TAG(cnl::saturated_overflow_tag, "overflow", "saturated")
    VF_TAG(cnl::_impl::throwing_overflow_tag, "overflow", "throwing")
    VF_TAG(cnl::trapping_overflow_tag, "overflow", "trapping")
    VF_TAG(cnl::undefined_overflow_tag, "overflow", "undefined")
    VF_TAG(cnl::native_rounding_tag, "rounding", "native")
    VF_TAG(cnl::nearest_rounding_tag, "rounding", "nearest")
    VF_TAG(cnl::tie_to_pos_inf_rounding_tag, "rounding", "tie_to_pos_inf")
    VF_TAG(cnl::neg_inf_rounding_tag, "rounding", "neg_inf")
#undef VF_TAG

    template<class Rep, class Tag>
    struct describe<cnl::_impl::wrapper<Rep, Tag>> {
        using T = cnl::_impl::wrapper<Rep, Tag>;
        static std::string str()
        {
            return "{" + tagdesc<Tag>::str() + ",\"rep\":" + desc<Rep>() + facts<T>() + "}";
        }
    };

    ////////////////////////////////////////////////////////////////////////////
    // raw(x): the innermost integer representation, as limbs; read from the object, never recomputed

    template<class T>
    struct rawer;

    template<class T>
    std::string raw(T const& x)
    {
        return rawer<std::remove_cvref_t<T>>::get(x);
    }

    template<class T>
    requires(std::is_integral_v<T> || std::is_same_v<T, i128> || std::is_same_v<T, u128>) struct rawer<T> {
        static std::string get(T x)
        {
            return enc(x);
        }
    };

    template<std::uint32_t W, class Limb, class A, bool S>
    struct rawer<cnl::_impl::math::wide_integer::uintwide_t<W, Limb, A, S>> {
        using T = cnl::_impl::math::wide_integer::uintwide_t<W, Limb, A, S>;
        static std::string get(T const& x)
        {
            // slice the limb array ourselves: two's complement bits -> sign + magnitude
            auto const& rep = x.crepresentation();
            std::vector<std::uint32_t> words((W + 31) / 32, 0);
            constexpr unsigned lb = sizeof(Limb) * 8;
            std::size_t nl = W / lb;
            for (std::size_t i = 0; i < nl; ++i) {
                std::uint64_t limb = static_cast<std::uint64_t>(rep[i]);
                for (unsigned b = 0; b < lb; ++b) {
                    std::size_t bit = i * lb + b;
                    if ((limb >> b) & 1U) {
                        words[bit / 32] |= (1U << (bit % 32));
                    }
                }
            }
            bool neg = S && ((words[(W - 1) / 32] >> ((W - 1) % 32)) & 1U);
            if (neg) {
                // magnitude = ~bits + 1 over W bits
                std::uint64_t carry = 1;
                for (std::size_t i = 0; i < words.size(); ++i) {
                    std::uint64_t v = static_cast<std::uint64_t>(static_cast<std::uint32_t>(~words[i])) + carry;
                    words[i] = static_cast<std::uint32_t>(v);
                    carry = v >> 32;
                }
                if (W % 32) {
                    words.back() &= (1U << (W % 32)) - 1U;
                }
            }
            return enc_words(neg, words);
        }
    };

    template<class Rep, class Tag>
    struct rawer<cnl::_impl::wrapper<Rep, Tag>> {
        static std::string get(cnl::_impl::wrapper<Rep, Tag> const& x)
        {
            return raw(cnl::_impl::to_rep(x));
        }
    };

    ////////////////////////////////////////////////////////////////////////////
    // make<T>(neg, magnitude): build a T whose innermost representation is the given integer
    // (two's complement assembly, no arithmetic of the library on the way for built-in reps)

    template<class T>
    struct maker;

    template<class T>
    T make(bool neg, u128 mag)
    {
        return maker<T>::get(neg, mag);
    }

    template<class T>
    requires(std::is_integral_v<T> || std::is_same_v<T, i128> || std::is_same_v<T, u128>) struct maker<T> {
        static T get(bool neg, u128 mag)
        {
            return from_sm<T>(neg, mag);
        }
    };

    template<std::uint32_t W, class Limb, class A, bool S>
    struct maker<cnl::_impl::math::wide_integer::uintwide_t<W, Limb, A, S>> {
        using T = cnl::_impl::math::wide_integer::uintwide_t<W, Limb, A, S>;
        static T get(bool neg, u128 mag)
        {
            // the library's own converting constructors (from 64-bit pieces) and shifts
            T hi{static_cast<std::uint64_t>(mag >> 64)};
            T lo{static_cast<std::uint64_t>(mag)};
            T v = (W > 64) ? T((hi << 64) | lo) : lo;
            return neg ? T(-v) : v;
        }
    };

    template<class Rep, class Tag>
    struct maker<cnl::_impl::wrapper<Rep, Tag>> {
        using T = cnl::_impl::wrapper<Rep, Tag>;
        static T get(bool neg, u128 mag)
        {
            return cnl::_impl::from_rep<T>(make<Rep>(neg, mag));
        }
    };

    // innermost representation type
    template<class T>
    struct innermost {
        using type = T;
    };
    template<class Rep, class Tag>
    struct innermost<cnl::_impl::wrapper<Rep, Tag>> : innermost<Rep> {
    };
    template<class T>
    using innermost_t = typename innermost<T>::type;

    // values of T: raw representations from the TLC boundary table of the innermost type plus T's own
    // extremes and seeded random values, filtered to [lowest(), max()] of T by comparing raw values
    template<class T>
    std::vector<T> number_values(int nrand, std::uint64_t salt, int maxtier = -1, bool exhaustive8 = true)
    {
        using I = innermost_t<T>;
        static_assert(std::is_integral_v<I> || std::is_same_v<I, i128> || std::is_same_v<I, u128>);
        I lo = cnl::unwrap(std::numeric_limits<T>::lowest());
        I hi = cnl::unwrap(std::numeric_limits<T>::max());
        std::vector<I> cand;
        if (sizeof(I) == 1 && thorough() && exhaustive8) {
            if constexpr (sizeof(I) == 1) {
                cand = all_values<I>();
            }
        } else {
            cand = operands<I>(nrand, salt, sizeof(I) == 1 ? 2 : maxtier);
            for (int d = 0; d < 3; ++d) {
                cand.push_back(static_cast<I>(hi - static_cast<I>(d)));
                cand.push_back(static_cast<I>(lo + static_cast<I>(d)));
            }
            int dg = cnl::digits_v<T>;
            int ib = static_cast<int>(sizeof(I) * 8) - (is_signed_int<I> ? 1 : 0);
            rng r(salt + 77);
            for (int k = 0; k < nrand; ++k) {
                I v = r.template value<I>();
                if (dg < ib) {
                    v = static_cast<I>(v >> (ib - dg));
                }
                cand.push_back(v);
            }
        }
        std::vector<T> out;
        for (I c : cand) {
            if (c >= lo && c <= hi) {
                bool neg = c < 0;
                u128 mag = neg ? ~static_cast<u128>(static_cast<i128>(c)) + 1 : static_cast<u128>(c);
                out.push_back(make<T>(neg, mag));
            }
        }
        return out;
    }
}
