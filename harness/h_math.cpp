// Recorder for C20: cnl::exp2 on scaled_integer (reps up to 32 bits, every exponent that leaves at least one
// integer bit) and the std::numbers constants for scaled_integer instantiations (8..64-bit reps).
// MATH_SET selects a slice of the (Rep, Exponent) grid.
#include "describe.hpp"

#include <numbers>

using namespace vf;

template<class Rep, int E>
using SI = cnl::scaled_integer<Rep, cnl::power<E>>;

template<class Rep, int E>
void exp2_type(sink& out, std::uint64_t salt)
{
    using T = SI<Rep, E>;
    int id = add_inst(out, ev("Inst").str("kind", "Exp2").str("op", "exp2").raw("lt", desc<T>()).raw("rt", desc<T>()).raw("res_t", desc<T>()));
    std::vector<Rep> xs;
    if constexpr (sizeof(Rep) <= 2) {
        long lo = std::numeric_limits<Rep>::min(), hi = std::numeric_limits<Rep>::max();
        long step = (sizeof(Rep) == 2 && !thorough()) ? 13 : 1;
        for (long v = lo; v <= hi; v += step) {
            xs.push_back(static_cast<Rep>(v));
        }
        xs.push_back(static_cast<Rep>(hi));
    } else {
        xs = operands<Rep>(thorough() ? 3000 : 150, salt, 2);
        long long lo = std::numeric_limits<Rep>::min(), hi = std::numeric_limits<Rep>::max();
        long long step = thorough() ? 65536 : 65536LL * 64;
        for (long long v = lo; v <= hi; v += step) {
            xs.push_back(static_cast<Rep>(v));
        }
    }
    for (int k = 0; k <= 40; ++k) {      // small representations: the whole domain of the coarse scales (exponent >= 0)
        xs.push_back(static_cast<Rep>(k));
        if constexpr (std::is_signed_v<Rep>) {
            xs.push_back(static_cast<Rep>(-k));
        }
    }
    for (Rep r : xs) {
        T x = cnl::_impl::from_rep<T>(r);
        T y{};
        auto o = guarded([&] { y = cnl::exp2(x); }, 2000);
        out.put(ev("Exp2").num("i", id).raw("x", enc(r)).raw("res", o == "ok" ? raw(y) : "[0]").str("out", o).s);
    }
}

template<class T>
void constants(sink& out)
{
    auto one = [&](char const* name, T const& v) {
        int id = add_inst(out, ev("Inst").str("kind", "Const").str("op", name).raw("lt", desc<T>()).raw("rt", desc<T>()).raw("res_t", desc<T>()));
        out.put(ev("Const").num("i", id).raw("res", raw(v)).str("out", "ok").s);
    };
    using namespace std::numbers;
    one("e", e_v<T>);
    one("log2e", log2e_v<T>);
    one("log10e", log10e_v<T>);
    one("pi", pi_v<T>);
    one("inv_pi", inv_pi_v<T>);
    one("inv_sqrtpi", inv_sqrtpi_v<T>);
    one("ln2", ln2_v<T>);
    one("ln10", ln10_v<T>);
    one("sqrt2", sqrt2_v<T>);
    one("sqrt3", sqrt3_v<T>);
    one("inv_sqrt3", inv_sqrt3_v<T>);
    one("egamma", egamma_v<T>);
    one("phi", phi_v<T>);
}

template<class Rep, int... Es>
void exp2_all(sink& out, std::integer_sequence<int, Es...>)
{
    (exp2_type<Rep, -(Es + 1)>(out, static_cast<std::uint64_t>(Es)), ...);
}
template<class Rep, int... Es>
void const_all(sink& out, std::integer_sequence<int, Es...>)
{
    (constants<SI<Rep, -(Es + 2)>>(out), ...);
}

int main(int argc, char** argv)
{
    if (argc < 2) {
        return 64;
    }
    install();
    sink out(argv[1], std::string("\"cc\":\"") + VERIF_CC + "\"");
#if MATH_SET == 0
    // scales of one and coarser: every x is integral
    exp2_type<std::int8_t, 0>(out, 100);
    exp2_type<std::uint8_t, 1>(out, 101);
    exp2_type<std::int16_t, 2>(out, 102);
    exp2_type<std::int32_t, 0>(out, 103);
    exp2_type<std::int32_t, 2>(out, 104);
    exp2_type<std::uint32_t, 1>(out, 105);
    exp2_type<std::uint16_t, 0>(out, 106);
    exp2_all<std::int8_t>(out, std::make_integer_sequence<int, 6>{});      // exponents -1..-6
    exp2_all<std::uint8_t>(out, std::make_integer_sequence<int, 7>{});
    const_all<std::uint8_t>(out, std::make_integer_sequence<int, 5>{});
    const_all<std::int16_t>(out, std::make_integer_sequence<int, 11>{});
#elif MATH_SET == 1
    exp2_all<std::int16_t>(out, std::make_integer_sequence<int, 14>{});
    const_all<std::uint16_t>(out, std::make_integer_sequence<int, 12>{});
#elif MATH_SET == 2
    exp2_all<std::uint16_t>(out, std::make_integer_sequence<int, 15>{});
    const_all<std::int32_t>(out, std::make_integer_sequence<int, 27>{});
#elif MATH_SET == 3
    exp2_all<std::int32_t>(out, std::make_integer_sequence<int, 30>{});
#elif MATH_SET == 4
    exp2_all<std::uint32_t>(out, std::make_integer_sequence<int, 30>{});
    const_all<std::uint32_t>(out, std::make_integer_sequence<int, 28>{});
#elif MATH_SET == 5
    const_all<std::int64_t>(out, std::make_integer_sequence<int, 60>{});      // exponents -2..-61
    const_all<std::uint64_t>(out, std::make_integer_sequence<int, 61>{});     // exponents -2..-62 (two integer bits left)
#endif
    std::fprintf(stderr, "events=%llu insts=%d\n", out.n, out.ninst);
    return 0;
}
