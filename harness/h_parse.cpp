// Recorder for C15: run-time parse<T>(token), compile-time literals (generated include VERIF_INST_FILE:
// the program under test contains the tokens), and constant/value-driven deduction (make_*, CTAD).
#include "describe.hpp"

#include <cctype>

using namespace vf;
using namespace cnl::literals;

inline std::string tok_json(std::string const& s)
{
    std::string r = "[";
    for (std::size_t k = 0; k < s.size(); ++k) {
        r += (k ? "," : "") + std::to_string(static_cast<unsigned char>(s[k]));
    }
    return r + "]";
}

// structured tokens: every length up to two chunks + 2 per base, leading digit and fill variants, sign, separators
inline std::vector<std::string> tokens(std::uint64_t salt)
{
    std::vector<std::string> out;
    struct B {
        char const* prefix;
        int base;
        int stride;
        char const* digits;
    };
    B bases[] = {{"", 10, 18, "0123456789"}, {"0x", 16, 15, "0123456789abcdef"}, {"0", 8, 21, "01234567"}, {"0b", 2, 63, "01"}};
    rng r(salt);
    for (auto const& b : bases) {
        int maxlen = 2 * b.stride + 2;
        for (int len = 1; len <= maxlen; ++len) {
            if (!thorough() && len > 6 && len % b.stride > 2 && len % b.stride < b.stride - 1 && (len % 3)) {
                continue;      // quick tier: every length near a chunk boundary, every third in between
            }
            for (int lead : {1, b.base / 2 - 1, b.base / 2, b.base - 1}) {
                if (lead < 1) {
                    continue;
                }
                for (int fill = 0; fill < 4; ++fill) {
                    std::string d(1, b.digits[lead]);
                    for (int k = 1; k < len; ++k) {
                        int dg = fill == 0 ? 0 : fill == 1 ? b.base - 1 : fill == 2 ? (k % 2 ? b.base - 1 : 0) : static_cast<int>(r.g() % static_cast<unsigned>(b.base));
                        d += b.digits[dg];
                    }
                    std::string t = std::string(b.prefix) + d;
                    out.push_back(t);
                    if (b.base == 16 && (fill == 1 || fill == 3)) {
                        // upper-case digits and prefix, both signs
                        std::string u = t;
                        for (char& c : u) {
                            c = static_cast<char>(std::toupper(static_cast<unsigned char>(c)));
                        }
                        out.push_back(u);
                        out.push_back("-" + u);
                        out.push_back("-0x" + u.substr(2));
                    }
                    if (b.base == 2 && fill == 3) {
                        out.push_back("-0B" + d);
                    }
                    if (fill == 3) {
                        out.push_back("-" + t);
                        // separators at the chunk edges (counted from the right)
                        std::string s = d;
                        for (int pos = static_cast<int>(s.size()) - b.stride; pos > 0; pos -= b.stride) {
                            s.insert(static_cast<std::size_t>(pos), "'");
                        }
                        out.push_back(std::string(b.prefix) + s);
                    }
                }
            }
        }
    }
    out.push_back("0");
    out.push_back("-0");
    out.push_back("+17");
    return out;
}

template<class T>
void run_parse(sink& out, std::vector<std::string> const& toks)
{
    using R = decltype(cnl::_impl::parse<T>(""));
    int id = add_inst(out, ev("Inst").str("kind", "Parse").str("op", "parse").raw("lt", desc<int>()).raw("rt", desc<R>()).raw("res_t", desc<R>()));
    for (auto const& t : toks) {
        R res{};
        auto o = guarded([&] { res = cnl::_impl::parse<T>(t.c_str()); }, 2000);
        out.put(ev("Parse").num("i", id).raw("tok", tok_json(t)).raw("res", o == "ok" ? raw(res) : "[0]").str("out", o).s);
    }
}

template<class V>
void lit(sink& out, char const* suffix, char const* token, V const& v)
{
    int id = add_inst(out, ev("Inst").str("kind", "Lit").str("op", suffix).raw("lt", desc<int>()).raw("rt", desc<int>()).raw("res_t", desc<V>()));
    out.put(ev("Lit").num("i", id).raw("tok", tok_json(token)).raw("res", raw(v)).num("digits", cnl::digits_v<V>).str("out", "ok").s);
}

// the literal expression itself is evaluated inside the guard (the operators are constexpr, not consteval)
template<class F>
void lit_rt(sink& out, char const* suffix, char const* token, F&& f)
{
    using V = decltype(f());
    int id = add_inst(out, ev("Inst").str("kind", "Lit").str("op", suffix).raw("lt", desc<int>()).raw("rt", desc<int>()).raw("res_t", desc<V>()));
    V v{};
    auto o = guarded([&] { v = f(); });
    out.put(ev("Lit").num("i", id).raw("tok", tok_json(token)).raw("res", o == "ok" ? raw(v) : "[0]").num("digits", cnl::digits_v<V>).str("out", o).s);
}

template<auto Value>
void lit_c(sink& out, char const* token, cnl::constant<Value>)
{
    int id = add_inst(out, ev("Inst").str("kind", "Lit").str("op", "_c").raw("lt", desc<int>()).raw("rt", desc<int>()).raw("res_t", desc<decltype(Value)>()));
    out.put(ev("Lit").num("i", id).raw("tok", tok_json(token)).raw("res", enc(Value)).num("digits", cnl::digits_v<cnl::constant<Value>>).str("out", "ok").s);
}

template<class R, class V>
void made(sink& out, char const* how, V const& v, R const& r)
{
    int id = add_inst(out, ev("Inst").str("kind", "Make").str("op", how).raw("lt", desc<int>()).raw("rt", desc<int>()).raw("res_t", desc<R>()));
    out.put(ev("Make").num("i", id).raw("v", enc(v)).raw("res", raw(r)).str("out", "ok").s);
}

// run-time factory call, guarded
template<class V, class F>
void made_rt(sink& out, char const* how, V const& v, F&& f)
{
    using R = decltype(f(v));
    static std::map<std::string, int> ids;
    std::string key = std::string(how) + desc<R>();
    if (!ids.count(key)) {
        ids[key] = add_inst(out, ev("Inst").str("kind", "Make").str("op", how).raw("lt", desc<int>()).raw("rt", desc<int>()).raw("res_t", desc<R>()));
    }
    R r{};
    auto o = guarded([&] { r = f(v); });
    out.put(ev("Make").num("i", ids[key]).raw("v", enc(v)).raw("res", o == "ok" ? raw(r) : "[0]").str("out", o).s);
}

template<auto Value>
void make_from_constant(sink& out)
{
    made_rt(out, "make_elastic_integer_c", Value, [](auto) { return cnl::make_elastic_integer(cnl::constant<Value>{}); });
    made_rt(out, "make_elastic_scaled_integer_c", Value, [](auto) { return cnl::make_elastic_scaled_integer(cnl::constant<Value>{}); });
    made_rt(out, "make_static_integer_c", Value, [](auto) { return cnl::make_static_integer(cnl::constant<Value>{}); });
    made_rt(out, "make_static_number_c", Value, [](auto) { return cnl::make_static_number(cnl::constant<Value>{}); });
    // round 9: the one factory of C15's list that was only driven with run-time values, and the operator form that uses the
    // same from_value<scaled_integer, constant> deduction
    made_rt(out, "make_scaled_integer_c", Value, [](auto) { return cnl::make_scaled_integer(cnl::constant<Value>{}); });
    made_rt(out, "scaled_times_constant", Value, [](auto) { return cnl::scaled_integer<int>{1} * cnl::constant<Value>{}; });
}

template<class I>
void make_from_values(sink& out, std::uint64_t salt)
{
    for (I v : operands<I>(thorough() ? 200 : 30, salt, thorough() ? 2 : 1)) {
        made_rt(out, "make_elastic_integer_v", v, [](I x) { return cnl::make_elastic_integer(x); });
        made_rt(out, "make_elastic_scaled_integer_v", v, [](I x) { return cnl::make_elastic_scaled_integer(x); });
        made_rt(out, "make_static_integer_v", v, [](I x) { return cnl::make_static_integer(x); });
        made_rt(out, "make_static_number_v", v, [](I x) { return cnl::make_static_number(x); });
        made_rt(out, "make_scaled_integer_v", v, [](I x) { return cnl::make_scaled_integer(x); });
    }
}

#define LIT_C(TOK) lit_c(out, #TOK, TOK##_c);
#define LIT_CNL(TOK) lit_rt(out, "_cnl", #TOK, [] { return TOK##_cnl; });
#define LIT_CNL2(TOK) lit_rt(out, "_cnl2", #TOK, [] { return TOK##_cnl2; });
#define LIT_WIDE(TOK) lit_rt(out, "_wide", #TOK, [] { return TOK##_wide; });
#define MAKE_C(VAL) make_from_constant<VAL>(out);

int main(int argc, char** argv)
{
    if (argc < 2) {
        return 64;
    }
    install();
    sink out(argv[1], std::string("\"cc\":\"") + VERIF_CC + "\"");
#if PARSE_PART == 0
    auto toks = tokens(7);
    run_parse<std::int64_t>(out, toks);
    run_parse<cnl::wide_integer<200>>(out, toks);
    run_parse<cnl::wide_integer<1000>>(out, toks);
    make_from_values<std::int8_t>(out, 1);
    make_from_values<std::uint16_t>(out, 2);
    make_from_values<std::int32_t>(out, 3);
    make_from_values<std::uint32_t>(out, 4);
    make_from_values<std::int64_t>(out, 5);
#else
#include VERIF_INST_FILE
#endif
    std::fprintf(stderr, "events=%llu insts=%d\n", out.n, out.ninst);
    return 0;
}
