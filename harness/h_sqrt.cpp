// Recorder for cnl::sqrt (C19) on built-in integers, elastic_integer and scaled_integer (even exponents).
#include "describe.hpp"

using namespace vf;

// non-negative raw stimuli for a type whose innermost rep is I: perfect squares and neighbours, 2^k, extremes
template<class T>
std::vector<T> sqrt_values(std::uint64_t salt)
{
    using I = innermost_t<T>;
    u128 hi = static_cast<u128>(cnl::unwrap(std::numeric_limits<T>::max()));
    std::vector<u128> c;
    if (hi <= 0xFFFF) {
        for (u128 v = 0; v <= hi; ++v) {
            c.push_back(v);
        }
    } else {
        rng r(salt);
        int hb = 0;
        for (u128 t = hi; t; t >>= 1) {
            ++hb;
        }
        std::vector<u128> roots = {0, 1, 2, 3, 4, 5, 7, 8, 15, 16, 17, 255, 256, 257, 65535, 65536, 65537, 0xFFFFFFFFull, 0x100000000ull,
                                   0xB504F333ull, 0xB504F334ull, 0xFFFFFFFFFFFFFFFFull};
        for (int k = 0; k < (thorough() ? 4000 : 150); ++k) {
            roots.push_back(static_cast<u128>(r.value<std::uint64_t>()) >> (r.g() % 64));
        }
        for (u128 q : roots) {
            if (q >> 64) {
                continue;
            }
            u128 sq = q * q;   // q < 2^64 so the product fits 128 bits
            for (int d = -1; d <= 1; ++d) {
                u128 v = sq + static_cast<u128>(d);
                if (d < 0 && sq == 0) {
                    continue;
                }
                c.push_back(v);
            }
        }
        for (int k = 0; k < hb; ++k) {
            c.push_back(static_cast<u128>(1) << k);
            c.push_back((static_cast<u128>(1) << k) - 1);
        }
        for (int d = 0; d < 4; ++d) {
            c.push_back(hi - static_cast<u128>(d));
        }
        for (int k = 0; k < (thorough() ? 2000 : 100); ++k) {
            c.push_back(((static_cast<u128>(r.g()) << 64) | r.g()) >> (r.g() % 128));
        }
    }
    std::vector<T> out;
    for (u128 v : c) {
        if (v <= hi) {
            out.push_back(make<T>(false, v));
        }
    }
    (void)sizeof(I);
    return out;
}

template<class T>
void run_sqrt(sink& out, std::uint64_t salt)
{
    using Res = decltype(cnl::sqrt(std::declval<T>()));
    int id = add_inst(out, ev("Inst").str("kind", "Sqrt").str("op", "sqrt").raw("lt", desc<T>()).raw("rt", desc<T>()).raw("res_t", desc<Res>()));
    for (auto const& x : sqrt_values<T>(salt)) {
        Res res{};
        auto o = guarded([&] { res = cnl::sqrt(x); }, 2000);
        out.put(ev("Sqrt").num("i", id).raw("x", raw(x)).raw("res", o == "ok" ? raw(res) : "[0]").str("out", o).s);
    }
}

// types whose width (digits plus sign) is odd or exceeds 128 bits: multi-limb wide_integer and wrappers over narrow elastic
// types; values are assembled from 128-bit pieces with the type's own shifts and read back from the object
template<class T>
void run_sqrt_big(sink& out, std::uint64_t salt)
{
    using Res = decltype(cnl::sqrt(std::declval<T>()));
    int id = add_inst(out, ev("Inst").str("kind", "Sqrt").str("op", "sqrt").raw("lt", desc<T>()).raw("rt", desc<T>()).raw("res_t", desc<Res>()));
    constexpr int D = cnl::digits_v<T>;
    std::vector<T> vs;
    rng r(salt);
    for (unsigned long long q : {0ULL, 1ULL, 2ULL, 3ULL, 4ULL, 7ULL, 8ULL, 15ULL, 16ULL, 31ULL, 32ULL, 44ULL, 1000ULL, 65535ULL, 65536ULL, 0xFFFFFFFFULL}) {
        for (int d = -1; d <= 1; ++d) {
            u128 v = static_cast<u128>(q) * q + static_cast<u128>(d);
            if ((d < 0 && q == 0) || (D < 127 && (v >> D))) {
                continue;
            }
            vs.push_back(make<T>(false, v));
        }
    }
    if constexpr (D > 130) {
        T one = make<T>(false, 1);
        for (int k = 100; k + 1 < D; k += 13) {
            vs.push_back(T(one << k));
            vs.push_back(T((one << k) - one));
            vs.push_back(T((make<T>(false, r.g() | 1) << (k - 60)) + make<T>(false, r.g())));
        }
        vs.push_back(std::numeric_limits<T>::max());
    }
    for (auto const& x : vs) {
        Res res{};
        auto o = guarded([&] { res = cnl::sqrt(x); }, 2000);
        out.put(ev("Sqrt").num("i", id).raw("x", raw(x)).raw("res", o == "ok" ? raw(res) : "[0]").str("out", o).s);
    }
}

template<class Rep, int E>
using SI = cnl::scaled_integer<Rep, cnl::power<E>>;
template<class Rep, int E, int R>
using SIR = cnl::scaled_integer<Rep, cnl::power<E, R>>;

int main(int argc, char** argv)
{
    if (argc < 2) {
        return 64;
    }
    install();
    sink out(argv[1], std::string("\"cc\":\"") + VERIF_CC + "\"");
    run_sqrt<std::int8_t>(out, 1);
    run_sqrt<std::uint8_t>(out, 2);
    run_sqrt<std::int16_t>(out, 3);
    run_sqrt<std::uint16_t>(out, 4);
    run_sqrt<std::int32_t>(out, 5);
    run_sqrt<std::uint32_t>(out, 6);
    run_sqrt<std::int64_t>(out, 7);
    run_sqrt<std::uint64_t>(out, 8);
    run_sqrt<i128>(out, 9);
    run_sqrt<u128>(out, 10);
    run_sqrt<cnl::elastic_integer<7>>(out, 11);
    run_sqrt<cnl::elastic_integer<8, unsigned>>(out, 12);
    run_sqrt<cnl::elastic_integer<15>>(out, 13);
    run_sqrt<cnl::elastic_integer<31>>(out, 14);
    run_sqrt<cnl::elastic_integer<32, unsigned>>(out, 15);
    run_sqrt<cnl::elastic_integer<33>>(out, 16);
    run_sqrt<cnl::elastic_integer<63>>(out, 17);
    run_sqrt<cnl::elastic_integer<64, unsigned>>(out, 18);
    run_sqrt<cnl::elastic_integer<100>>(out, 19);
    // unsigned narrowest with odd digit counts (the halved digit count rounds up)
    run_sqrt<cnl::elastic_integer<7, unsigned>>(out, 33);
    run_sqrt<cnl::elastic_integer<31, unsigned>>(out, 34);
    run_sqrt<cnl::elastic_integer<17, std::uint8_t>>(out, 35);
    run_sqrt<cnl::elastic_integer<63, unsigned>>(out, 36);
    run_sqrt<cnl::elastic_integer<9, std::int8_t>>(out, 37);
    run_sqrt<SI<std::int32_t, -16>>(out, 20);
    run_sqrt<SI<std::uint16_t, -8>>(out, 21);
    run_sqrt<SI<std::int64_t, -60>>(out, 22);
    run_sqrt<SI<std::uint64_t, 60>>(out, 23);
    run_sqrt<SI<std::int32_t, 0>>(out, 24);
    run_sqrt<SI<std::int16_t, 4>>(out, 25);
    run_sqrt<SI<cnl::elastic_integer<31>, -20>>(out, 26);
    run_sqrt<SI<std::uint8_t, -2>>(out, 27);
    run_sqrt_big<cnl::wide_integer<200>>(out, 40);
    run_sqrt_big<cnl::wide_integer<199, unsigned>>(out, 41);
    run_sqrt_big<cnl::wide_integer<256, std::int32_t>>(out, 42);
    run_sqrt_big<cnl::overflow_integer<cnl::elastic_integer<20>, cnl::saturated_overflow_tag>>(out, 43);
    run_sqrt_big<cnl::rounding_integer<cnl::elastic_integer<30>, cnl::native_rounding_tag>>(out, 44);
    // other radices: the result keeps the radix and halves the exponent
    run_sqrt<SIR<std::int32_t, -2, 10>>(out, 28);
    run_sqrt<SIR<std::int64_t, -4, 10>>(out, 29);
    run_sqrt<SIR<std::int16_t, 2, 10>>(out, 30);
    run_sqrt<SIR<std::int32_t, -4, 3>>(out, 31);
    run_sqrt<SIR<std::uint32_t, 2, 16>>(out, 32);
    std::fprintf(stderr, "events=%llu insts=%d\n", out.n, out.ninst);
    return 0;
}
