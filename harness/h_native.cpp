// Recorder for C12: native-tag wrappers next to the bare built-in expression.  NEST selects the wrapper
// nesting, LHS_INDEX the left operand type.
#include "describe.hpp"

using namespace vf;

#ifndef NEST
#define NEST 0
#endif
#ifndef LHS_INDEX
#define LHS_INDEX 4
#endif

template<class R>
struct nest {
#if NEST == 0
    using type = cnl::scaled_integer<R, cnl::power<0>>;
    static constexpr char const* name = "scaled0";
#elif NEST == 1
    using type = cnl::overflow_integer<R, cnl::native_overflow_tag>;
    static constexpr char const* name = "overflow_native";
#elif NEST == 2
    using type = cnl::rounding_integer<R, cnl::native_rounding_tag>;
    static constexpr char const* name = "rounding_native";
#elif NEST == 3
    using type = cnl::scaled_integer<cnl::overflow_integer<cnl::rounding_integer<R, cnl::native_rounding_tag>, cnl::native_overflow_tag>, cnl::power<0>>;
    static constexpr char const* name = "scaled0_overflow_rounding";
#else
    using type = cnl::overflow_integer<cnl::rounding_integer<R, cnl::native_rounding_tag>, cnl::native_overflow_tag>;
    static constexpr char const* name = "overflow_rounding";
#endif
};
template<class R>
using W = typename nest<R>::type;

template<int I> struct nth;
template<> struct nth<0> { using type = std::int8_t; };
template<> struct nth<1> { using type = std::uint8_t; };
template<> struct nth<2> { using type = std::int16_t; };
template<> struct nth<3> { using type = std::uint16_t; };
template<> struct nth<4> { using type = std::int32_t; };
template<> struct nth<5> { using type = std::uint32_t; };
template<> struct nth<6> { using type = std::int64_t; };
template<> struct nth<7> { using type = std::uint64_t; };
using L = nth<LHS_INDEX>::type;

template<class T>
std::vector<T> vals(std::uint64_t salt)
{
    // thorough: the bare exponent-0 nesting (NEST 0) over all 8-bit values and the tier-1 boundary sets, the deeper
    // nestings over the quick tier's sets plus more random values (keeps the tier near 10 M events)
    if constexpr (sizeof(T) == 1) {
        if (thorough() && NEST == 0) {
            return all_values<T>();
        }
        return boundary<T>(2);
    }
    if (thorough()) {
        return NEST == 0 ? operands<T>(10, salt, 1) : operands<T>(8, salt, 0);
    }
    return operands<T>(4, salt);
}

template<class Op, class A, class B>
void bin(sink& out, char const* opn, std::vector<A> const& as, std::vector<B> const& bs, bool shift = false)
{
    if constexpr (requires(W<A> a, W<B> b) { Op{}(a, b); }) {
        using WR = decltype(Op{}(std::declval<W<A>>(), std::declval<W<B>>()));
        using WT = innermost_t<WR>;
        using BT = decltype(Op{}(std::declval<A>(), std::declval<B>()));
        int id = add_inst(out, ev("Inst").str("kind", "NtBin").str("op", opn).str("nest", nest<A>::name).raw("lt", ty<A>()).raw("rt", ty<B>())
                                       .raw("wt", ty<WT>()).raw("bt", ty<BT>()));
        bool divlike = std::string(opn) == "div" || std::string(opn) == "mod";
        for (A a : as) {
            for (B b : bs) {
                if (divlike && b == 0) {
                    continue;
                }
                if (shift && (b < 0 || static_cast<u128>(b) >= sizeof(BT) * 8)) {
                    continue;      // out-of-range counts are undefined for the bare expression too
                }
                WT wres{};
                BT bres{};
                auto wo = guarded([&] { wres = cnl::unwrap(Op{}(W<A>{a}, W<B>{b})); });
                auto bo = guarded([&] { bres = Op{}(a, b); });
                out.put(ev("NtBin").num("i", id).raw("l", enc(a)).raw("r", enc(b)).raw("wres", wo == "ok" ? enc(wres) : "[0]")
                                .raw("bres", bo == "ok" ? enc(bres) : "[0]").str("wout", wo).str("bout", bo).s);
            }
        }
    }
}

// a bare built-in left operand with a wrapped right operand (the "non-wrapper OP wrapper" overloads): same expectation
template<class Op, class A, class B>
void bin_bare_lhs(sink& out, char const* opn, std::vector<A> const& as, std::vector<B> const& bs, bool shift = false)
{
    if constexpr (requires(A a, W<B> b) { Op{}(a, b); }) {
        using WR = decltype(Op{}(std::declval<A>(), std::declval<W<B>>()));
        using WT = innermost_t<WR>;
        using BT = decltype(Op{}(std::declval<A>(), std::declval<B>()));
        int id = add_inst(out, ev("Inst").str("kind", "NtBin").str("op", opn).str("nest", std::string(nest<B>::name) + "/bare_lhs").raw("lt", ty<A>()).raw("rt", ty<B>())
                                       .raw("wt", ty<WT>()).raw("bt", ty<BT>()));
        bool divlike = std::string(opn) == "div" || std::string(opn) == "mod";
        std::size_t n = 0;
        for (A a : as) {
            for (B b : bs) {
                if ((divlike && b == 0) || (!thorough() && (n++ % 3))) {
                    continue;
                }
                if (shift && (b < 0 || static_cast<u128>(b) >= sizeof(BT) * 8)) {
                    continue;
                }
                WT wres{};
                BT bres{};
                auto wo = guarded([&] { wres = cnl::unwrap(Op{}(a, W<B>{b})); });
                auto bo = guarded([&] { bres = Op{}(a, b); });
                out.put(ev("NtBin").num("i", id).raw("l", enc(a)).raw("r", enc(b)).raw("wres", wo == "ok" ? enc(wres) : "[0]")
                                .raw("bres", bo == "ok" ? enc(bres) : "[0]").str("wout", wo).str("bout", bo).s);
            }
        }
    }
}

template<class A, class B>
void cmp(sink& out, std::vector<A> const& as, std::vector<B> const& bs)
{
    if constexpr (requires(W<A> a, W<B> b) { a < b; }) {
        int id = add_inst(out, ev("Inst").str("kind", "NtCmp").str("op", "cmp").str("nest", nest<A>::name).raw("lt", ty<A>()).raw("rt", ty<B>())
                                       .raw("wt", ty<bool>()).raw("bt", ty<bool>()));
        for (A a : as) {
            for (B b : bs) {
                bool w[6] = {}, c[6] = {};
                auto wo = guarded([&] {
                    W<A> x{a};
                    W<B> y{b};
                    w[0] = x < y;
                    w[1] = x <= y;
                    w[2] = x > y;
                    w[3] = x >= y;
                    w[4] = x == y;
                    w[5] = x != y;
                });
#pragma GCC diagnostic push
#pragma GCC diagnostic ignored "-Wsign-compare"
                c[0] = a < b;
                c[1] = a <= b;
                c[2] = a > b;
                c[3] = a >= b;
                c[4] = a == b;
                c[5] = a != b;
#pragma GCC diagnostic pop
                char b1[32], b2[32];
                std::snprintf(b1, sizeof(b1), "[%d,%d,%d,%d,%d,%d]", w[0], w[1], w[2], w[3], w[4], w[5]);
                std::snprintf(b2, sizeof(b2), "[%d,%d,%d,%d,%d,%d]", c[0], c[1], c[2], c[3], c[4], c[5]);
                out.put(ev("NtCmp").num("i", id).raw("l", enc(a)).raw("r", enc(b)).raw("wc", b1).raw("bc", b2).str("wout", wo).s);
            }
        }
    }
}

template<class A>
void unary(sink& out, std::vector<A> const& as)
{
    {
        using WR = decltype(-std::declval<W<A>>());
        using WT = innermost_t<WR>;
        using BT = decltype(-std::declval<A>());
        int id = add_inst(out, ev("Inst").str("kind", "NtUn").str("op", "neg").str("nest", nest<A>::name).raw("lt", ty<A>()).raw("rt", ty<A>())
                                       .raw("wt", ty<WT>()).raw("bt", ty<BT>()));
        for (A a : as) {
            WT wres{};
            BT bres{};
            auto wo = guarded([&] { wres = cnl::unwrap(-W<A>{a}); });
            auto bo = guarded([&] { bres = -a; });
            out.put(ev("NtUn").num("i", id).raw("l", enc(a)).raw("wres", wo == "ok" ? enc(wres) : "[0]").raw("bres", bo == "ok" ? enc(bres) : "[0]")
                            .str("wout", wo).str("bout", bo).s);
        }
    }
}

template<class A, class B>
void assign(sink& out, std::vector<A> const& as, std::vector<B> const& bs)
{
    auto one = [&](char const* opn, auto wop, auto bop, bool needb) {
        bool is_shift = std::string(opn) == "shl" || std::string(opn) == "shr";
        int id = add_inst(out, ev("Inst").str("kind", "NtAssign").str("op", opn).str("nest", nest<A>::name).raw("lt", ty<A>()).raw("rt", ty<B>())
                                       .raw("wt", ty<A>()).raw("bt", ty<A>()));
        for (A a : as) {
            for (B b : bs) {
                if ((std::string(opn) == "div" || std::string(opn) == "mod") && b == 0) {
                    continue;
                }
                if (is_shift && (b < 0 || static_cast<u128>(b) >= sizeof(decltype(+a)) * 8)) {
                    continue;      // out-of-range counts are undefined for the bare expression too
                }
                A wafter{}, wret{}, bafter{};
                auto wo = guarded([&] {
                    W<A> x{a};
                    W<A> r = wop(x, W<B>{b});
                    wafter = cnl::unwrap(x);
                    wret = cnl::unwrap(r);
                });
                auto bo = guarded([&] {
                    A x = a;
                    bop(x, b);
                    bafter = x;
                });
                if (bo != "ok") {
                    continue;      // the bare expression is undefined here: outside the domain
                }
                out.put(ev("NtAssign").num("i", id).raw("l", enc(a)).raw("r", enc(b)).raw("wafter", enc(wafter)).raw("wret", enc(wret))
                                .raw("bafter", enc(bafter)).str("wout", wo).s);
                if (!needb) {
                    break;
                }
            }
        }
    };
    one("add", [](auto& x, auto y) { return x += y; }, [](A& x, B y) { x += y; }, true);
    one("sub", [](auto& x, auto y) { return x -= y; }, [](A& x, B y) { x -= y; }, true);
    one("mul", [](auto& x, auto y) { return x *= y; }, [](A& x, B y) { x *= y; }, true);
    one("div", [](auto& x, auto y) { return x /= y; }, [](A& x, B y) { x /= y; }, true);
    if constexpr (requires(W<A>& x, W<B> y) { x %= y; x &= y; x |= y; x ^= y; }) {
        one("mod", [](auto& x, auto y) { return x %= y; }, [](A& x, B y) { x %= y; }, true);
        one("and", [](auto& x, auto y) { return x &= y; }, [](A& x, B y) { x &= y; }, true);
        one("or", [](auto& x, auto y) { return x |= y; }, [](A& x, B y) { x |= y; }, true);
        one("xor", [](auto& x, auto y) { return x ^= y; }, [](A& x, B y) { x ^= y; }, true);
    }
    if constexpr (requires(W<A>& x, W<B> y) { x <<= y; x >>= y; }) {
        one("shl", [](auto& x, auto y) { return x <<= y; }, [](A& x, B y) { x <<= y; }, true);
        one("shr", [](auto& x, auto y) { return x >>= y; }, [](A& x, B y) { x >>= y; }, true);
    }
#if NEST == 0 || NEST == 1      // ++/-- do not compile for wrappers that contain rounding_integer<_, native_rounding_tag>
    if constexpr (requires(W<A>& x) { ++x; --x; }) {
        one("preinc", [](auto& x, auto) { return ++x; }, [](A& x, B) { ++x; }, false);
        one("predec", [](auto& x, auto) { return --x; }, [](A& x, B) { --x; }, false);
    }
    if constexpr (requires(W<A>& x) { x++; x--; }) {
        one("postinc", [](auto& x, auto) { return x++; }, [](A& x, B) { x++; }, false);
        one("postdec", [](auto& x, auto) { return x--; }, [](A& x, B) { x--; }, false);
    }
#endif
}

template<class B>
void with_rhs(sink& out, std::uint64_t salt)
{
    auto as = vals<L>(salt);
    auto bs = vals<B>(salt + 1);
    using namespace cnl::_impl;
    bin<add_op>(out, "add", as, bs);
    bin<subtract_op>(out, "sub", as, bs);
    bin<multiply_op>(out, "mul", as, bs);
    bin<divide_op>(out, "div", as, bs);
    bin<modulo_op>(out, "mod", as, bs);
    bin<bitwise_and_op>(out, "and", as, bs);
    bin<bitwise_or_op>(out, "or", as, bs);
    bin<bitwise_xor_op>(out, "xor", as, bs);
    std::vector<B> counts;
    for (int k = 0; k < 64; ++k) {
        counts.push_back(static_cast<B>(k));
    }
    bin<shift_left_op>(out, "shl", as, counts, true);
    bin<shift_right_op>(out, "shr", as, counts, true);
    bin_bare_lhs<shift_left_op>(out, "shl", as, counts, true);
    bin_bare_lhs<shift_right_op>(out, "shr", as, counts, true);
    bin_bare_lhs<add_op>(out, "add", as, bs);
    bin_bare_lhs<multiply_op>(out, "mul", as, bs);
    cmp(out, as, bs);
    assign(out, as, bs);
}

// documented kernels on scaled_integer<int32_t, power<-16>> next to hand-written integer code
void kernels(sink& out)
{
    using S32 = cnl::scaled_integer<std::int32_t, cnl::power<-16>>;
    using S64 = cnl::scaled_integer<std::int64_t, cnl::power<-16>>;
    auto as = operands<std::int32_t>(thorough() ? 400 : 60, 77, 1);
    auto bs = operands<std::int32_t>(thorough() ? 400 : 60, 78, 1);
    int km = add_inst(out, ev("Inst").str("kind", "NtKernel").str("op", "multiply_widen").num("exp", -32).raw("lt", ty<std::int32_t>()).raw("rt", ty<std::int32_t>()));
    int ks = add_inst(out, ev("Inst").str("kind", "NtKernel").str("op", "square").num("exp", -32).raw("lt", ty<std::int32_t>()).raw("rt", ty<std::int32_t>()));
    int ka = add_inst(out, ev("Inst").str("kind", "NtKernel").str("op", "average").num("exp", -17).raw("lt", ty<std::int32_t>()).raw("rt", ty<std::int32_t>()));
    int kx = add_inst(out, ev("Inst").str("kind", "NtKernel").str("op", "mixed_add").num("exp", -8).raw("lt", ty<std::int32_t>()).raw("rt", ty<std::int32_t>()));
    int kc1 = add_inst(out, ev("Inst").str("kind", "NtKernel").str("op", "mixed_cmp_fine_coarse").num("exp", 0).raw("lt", ty<std::int32_t>()).raw("rt", ty<std::int32_t>()));
    int kc2 = add_inst(out, ev("Inst").str("kind", "NtKernel").str("op", "mixed_cmp_coarse_fine").num("exp", 0).raw("lt", ty<std::int32_t>()).raw("rt", ty<std::int32_t>()));
    // round 9: % and / with operands of different exponents are NOT aligned (the remainder keeps the dividend's exponent, the
    // quotient's exponent is the difference); a bare built-in dividend counts as exponent 0; %= stores back into the dividend's type
    int kmod1 = add_inst(out, ev("Inst").str("kind", "NtKernel").str("op", "mixed_mod_coarse_fine").num("exp", -4).raw("lt", ty<std::int32_t>()).raw("rt", ty<std::int32_t>()));
    int kmod2 = add_inst(out, ev("Inst").str("kind", "NtKernel").str("op", "mixed_mod_fine_coarse").num("exp", -8).raw("lt", ty<std::int32_t>()).raw("rt", ty<std::int32_t>()));
    int kmod3 = add_inst(out, ev("Inst").str("kind", "NtKernel").str("op", "int_mod_scaled").num("exp", 0).raw("lt", ty<std::int32_t>()).raw("rt", ty<std::int32_t>()));
    int kmod4 = add_inst(out, ev("Inst").str("kind", "NtKernel").str("op", "mixed_modassign").num("exp", -4).raw("lt", ty<std::int32_t>()).raw("rt", ty<std::int32_t>()));
    // round 10: unary minus of a scaled_integer over an unsigned elastic representation that fills its storage word
    int kneg = add_inst(out, ev("Inst").str("kind", "NtKernel").str("op", "neg_elastic_unsigned").num("exp", -8).raw("lt", ty<std::uint32_t>()).raw("rt", ty<std::uint32_t>()));
    int kdiv1 = add_inst(out, ev("Inst").str("kind", "NtKernel").str("op", "mixed_div_coarse_fine").num("exp", 4).raw("lt", ty<std::int32_t>()).raw("rt", ty<std::int32_t>()));
    auto mask = [](bool lt, bool le, bool gt, bool ge, bool eq, bool ne) {
        return static_cast<std::int32_t>(lt * 1 + le * 2 + gt * 4 + ge * 8 + eq * 16 + ne * 32);
    };
    // ++x, x++, --x, x-- on scaled_integers whose unit is not 1: equivalent to adding / subtracting one, i.e. radix^-exponent
    // representation steps (hand-written: rep +- step); wexp carries the step's decimal / binary digit count for the class
    auto incdec = [&](auto proto, char const* name, std::int64_t step) {
        using S = decltype(proto);
        int ids[4];
        char const* ops[4] = {"preinc", "postinc", "predec", "postdec"};
        for (int k = 0; k < 4; ++k) {
            ids[k] = add_inst(out, ev("Inst").str("kind", "NtKernel").str("op", std::string("incdec_") + ops[k]).str("type", name).num("exp", 0)
                                           .raw("lt", ty<std::int32_t>()).raw("rt", ty<std::int32_t>()));
        }
        for (std::int32_t a : as) {
            std::int64_t up = std::int64_t{a} + step, down = std::int64_t{a} - step;
            if (up > INT32_MAX || down < INT32_MIN) {
                continue;
            }
            for (int k = 0; k < 4; ++k) {
                S x = cnl::_impl::from_rep<S>(a);
                std::int32_t ret = 0;
                auto wo = guarded([&] {
                    switch (k) {
                    case 0: ret = cnl::unwrap(++x); break;
                    case 1: ret = cnl::unwrap(x++); break;
                    case 2: ret = cnl::unwrap(--x); break;
                    default: ret = cnl::unwrap(x--); break;
                    }
                });
                std::int64_t after = k < 2 ? up : down;
                std::int64_t want_ret = (k == 0 || k == 2) ? after : std::int64_t{a};
                // l = representation before, r = step; wres = representation after, bres = hand-written after; the value the
                // expression returned is compared by the recorder's reference only through `ret`/`want_ret` being logged
                out.put(ev("NtKernel").num("i", ids[k]).raw("l", enc(a)).raw("r", enc(step)).raw("wres", enc(cnl::unwrap(x))).num("wexp", 0)
                                .raw("bres", enc(after)).raw("ret", enc(ret)).raw("want_ret", enc(want_ret)).str("wout", wo).s);
            }
        }
    };
    incdec(cnl::scaled_integer<std::int32_t, cnl::power<-8>>{}, "i32_-8_2", 256);
    incdec(cnl::scaled_integer<std::int32_t, cnl::power<-2, 10>>{}, "i32_-2_10", 100);
    incdec(cnl::scaled_integer<std::int32_t, cnl::power<-3, 10>>{}, "i32_-3_10", 1000);
    incdec(cnl::scaled_integer<std::int32_t, cnl::power<-1, 3>>{}, "i32_-1_3", 3);
    std::size_t n = 0;
    for (std::int32_t a : as) {
        for (std::int32_t b : bs) {
            if (!thorough() && (n++ % 5)) {
                continue;
            }
            // comparison of a fine (2^-8) with a coarse (2^-4) number, either order, against shift-and-compare
            if (std::int64_t{b} * 16 >= INT32_MIN && std::int64_t{b} * 16 <= INT32_MAX) {
                using P8 = cnl::scaled_integer<std::int32_t, cnl::power<-8>>;
                using P4 = cnl::scaled_integer<std::int32_t, cnl::power<-4>>;
                auto x = cnl::_impl::from_rep<P8>(a);
                auto y = cnl::_impl::from_rep<P4>(b);
                std::int32_t m1 = 0, m2 = 0;
                auto wo = guarded([&] {
                    m1 = mask(x < y, x <= y, x > y, x >= y, x == y, x != y);
                    m2 = mask(y < x, y <= x, y > x, y >= x, y == x, y != x);
                });
                std::int64_t bb = std::int64_t{b} * 16;
                std::int32_t r1 = mask(a < bb, a <= bb, a > bb, a >= bb, a == bb, a != bb);
                std::int32_t r2 = mask(bb < a, bb <= a, bb > a, bb >= a, bb == a, bb != a);
                out.put(ev("NtKernel").num("i", kc1).raw("l", enc(a)).raw("r", enc(b)).raw("wres", enc(m1)).num("wexp", 0).raw("bres", enc(r1)).str("wout", wo).s);
                out.put(ev("NtKernel").num("i", kc2).raw("l", enc(a)).raw("r", enc(b)).raw("wres", enc(m2)).num("wexp", 0).raw("bres", enc(r2)).str("wout", wo).s);
            }
            {
                using EU = cnl::scaled_integer<cnl::elastic_integer<32, unsigned>, cnl::power<-8>>;
                std::uint32_t ua = static_cast<std::uint32_t>(a);
                std::int64_t res = 0;
                int ex = 0;
                auto wo = guarded([&] {
                    auto s2 = -cnl::_impl::from_rep<EU>(cnl::elastic_integer<32, unsigned>{ua});
                    res = static_cast<std::int64_t>(cnl::unwrap(s2));
                    ex = cnl::_impl::tag_of_t<decltype(s2)>::exponent;
                });
                out.put(ev("NtKernel").num("i", kneg).raw("l", enc(ua)).raw("r", enc(ua)).raw("wres", enc(res)).num("wexp", ex)
                                .raw("bres", enc(-static_cast<std::int64_t>(ua))).str("wout", wo).s);
            }
            if (a != 0 && !(b == INT32_MIN && a == -1)) {
                using P8 = cnl::scaled_integer<std::int32_t, cnl::power<-8>>;
                using P4 = cnl::scaled_integer<std::int32_t, cnl::power<-4>>;
                auto x = cnl::_impl::from_rep<P8>(a);
                auto y = cnl::_impl::from_rep<P4>(b);
                auto rec = [&](int id, auto&& f, std::int32_t ref) {
                    std::int32_t res = 0;
                    int ex = 0;
                    auto wo = guarded([&] {
                        auto s2 = f();
                        res = static_cast<std::int32_t>(cnl::unwrap(s2));
                        ex = cnl::_impl::tag_of_t<decltype(s2)>::exponent;
                    });
                    out.put(ev("NtKernel").num("i", id).raw("l", enc(a)).raw("r", enc(b)).raw("wres", enc(res)).num("wexp", ex)
                                    .raw("bres", enc(ref)).str("wout", wo).s);
                };
                rec(kmod1, [&] { return y % x; }, b % a);
                rec(kmod3, [&] { return b % x; }, b % a);
                rec(kmod4, [&] { auto t = y; t %= x; return t; }, b % a);
                rec(kdiv1, [&] { return y / x; }, b / a);
            }
            if (b != 0 && !(a == INT32_MIN && b == -1)) {
                using P8 = cnl::scaled_integer<std::int32_t, cnl::power<-8>>;
                using P4 = cnl::scaled_integer<std::int32_t, cnl::power<-4>>;
                auto x = cnl::_impl::from_rep<P8>(a);
                auto y = cnl::_impl::from_rep<P4>(b);
                std::int32_t res = 0;
                int ex = 0;
                auto wo = guarded([&] {
                    auto s2 = x % y;
                    res = static_cast<std::int32_t>(cnl::unwrap(s2));
                    ex = cnl::_impl::tag_of_t<decltype(s2)>::exponent;
                });
                out.put(ev("NtKernel").num("i", kmod2).raw("l", enc(a)).raw("r", enc(b)).raw("wres", enc(res)).num("wexp", ex)
                                .raw("bres", enc(a % b)).str("wout", wo).s);
            }
            auto fa = cnl::_impl::from_rep<S32>(a);
            auto fb = cnl::_impl::from_rep<S32>(b);
            {
                auto prod = S64{fa} * fb;
                std::int64_t ref = std::int64_t{a} * b;
                out.put(ev("NtKernel").num("i", km).raw("l", enc(a)).raw("r", enc(b)).raw("wres", raw(prod)).num("wexp", cnl::_impl::tag_of_t<decltype(prod)>::exponent)
                                .raw("bres", enc(ref)).str("wout", "ok").s);
                auto sq = S64{fa} * fa;
                std::int64_t ref2 = std::int64_t{a} * a;
                out.put(ev("NtKernel").num("i", ks).raw("l", enc(a)).raw("r", enc(b)).raw("wres", raw(sq)).num("wexp", cnl::_impl::tag_of_t<decltype(sq)>::exponent)
                                .raw("bres", enc(ref2)).str("wout", "ok").s);
            }
            {
                using namespace cnl::literals;
                auto avg = (S64{fa} + fb) >> 1_c;
                std::int64_t ref = std::int64_t{a} + b;
                out.put(ev("NtKernel").num("i", ka).raw("l", enc(a)).raw("r", enc(b)).raw("wres", raw(avg)).num("wexp", cnl::_impl::tag_of_t<decltype(avg)>::exponent)
                                .raw("bres", enc(ref)).str("wout", "ok").s);
            }
            {
                using P8 = cnl::scaled_integer<std::int32_t, cnl::power<-8>>;
                using P4 = cnl::scaled_integer<std::int32_t, cnl::power<-4>>;
                std::int64_t wide = std::int64_t{a} + (std::int64_t{b} * 16);
                if (std::int64_t{b} * 16 >= INT32_MIN && std::int64_t{b} * 16 <= INT32_MAX && wide >= INT32_MIN && wide <= INT32_MAX) {
                    std::int32_t res = 0;
                    int ex = 0;
                    auto wo = guarded([&] {
                        auto s = cnl::_impl::from_rep<P8>(a) + cnl::_impl::from_rep<P4>(b);
                        res = cnl::unwrap(s);
                        ex = cnl::_impl::tag_of_t<decltype(s)>::exponent;
                    });
                    std::int32_t ref = a + (b << 4);
                    out.put(ev("NtKernel").num("i", kx).raw("l", enc(a)).raw("r", enc(b)).raw("wres", enc(res)).num("wexp", ex)
                                    .raw("bres", enc(ref)).str("wout", wo).s);
                }
            }
        }
    }
}

int main(int argc, char** argv)
{
    if (argc < 2) {
        return 64;
    }
    install();
    sink out(argv[1], std::string("\"cc\":\"") + VERIF_CC + "\"");
    unary<L>(out, vals<L>(5));
    with_rhs<std::int8_t>(out, 10);
    with_rhs<std::uint8_t>(out, 20);
    with_rhs<std::int32_t>(out, 30);
    with_rhs<std::uint32_t>(out, 40);
    with_rhs<std::int64_t>(out, 50);
    with_rhs<std::uint64_t>(out, 60);
    if (thorough()) {
        with_rhs<std::int16_t>(out, 70);
        with_rhs<std::uint16_t>(out, 80);
    }
#if NEST == 0 && LHS_INDEX == 4
    kernels(out);
#endif
    std::fprintf(stderr, "events=%llu insts=%d\n", out.n, out.ninst);
    return 0;
}
