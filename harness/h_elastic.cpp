// Recorder for the elastic_integer family (C05): arithmetic, unary minus, shifts by a constant and
// numeric_limits over pairs of elastic_integer types listed in VERIF_INST_FILE (rows enumerated by TLC
// from spec/gen/GenElastic.tla).
#include "describe.hpp"

using namespace vf;

template<class Op, class LT, class RT>
void elbin(sink& out, char const* opn, std::vector<LT> const& ls, std::vector<RT> const& rs)
{
    using Res = decltype(Op{}(std::declval<LT>(), std::declval<RT>()));
    int id = add_inst(out, ev("Inst").str("kind", "ElBin").str("op", opn).raw("lt", desc<LT>()).raw("rt", desc<RT>())
                                   .raw("res_t", desc<Res>()));
    bool divlike = std::string(opn) == "div" || std::string(opn) == "mod";
    for (auto const& a : ls) {
        for (auto const& b : rs) {
            if (divlike && raw(b) == "[0]") {
                continue;
            }
            Res res{};
            auto o = guarded([&] { res = Op{}(a, b); });
            out.put(ev("ElBin").num("i", id).raw("l", raw(a)).raw("r", raw(b)).raw("res", o == "ok" ? raw(res) : "[0]")
                            .str("out", o).s);
        }
    }
}

template<class LT>
void elneg(sink& out, std::vector<LT> const& ls)
{
    using Res = decltype(-std::declval<LT>());
    int id = add_inst(out, ev("Inst").str("kind", "ElUn").str("op", "neg").raw("lt", desc<LT>()).raw("rt", desc<LT>())
                                   .raw("res_t", desc<Res>()));
    for (auto const& a : ls) {
        Res res{};
        auto o = guarded([&] { res = -a; });
        out.put(ev("ElUn").num("i", id).raw("l", raw(a)).raw("res", o == "ok" ? raw(res) : "[0]").str("out", o).s);
    }
}

template<int K, bool Left, class LT>
void elshift(sink& out, std::vector<LT> const& ls)
{
    if constexpr (Left || (cnl::digits_v<LT> > K)) {
        using Res = decltype(Left ? (std::declval<LT>() << cnl::constant<K>{}) : (std::declval<LT>() << cnl::constant<K>{}));
        if constexpr (Left) {
            using R2 = decltype(std::declval<LT>() << cnl::constant<K>{});
            int id = add_inst(out, ev("Inst").str("kind", "ElShift").str("op", "shl").num("k", K).raw("lt", desc<LT>())
                                           .raw("rt", desc<int>()).raw("res_t", desc<R2>()));
            for (auto const& a : ls) {
                R2 res{};
                auto o = guarded([&] { res = a << cnl::constant<K>{}; });
                out.put(ev("ElShift").num("i", id).raw("l", raw(a)).raw("res", o == "ok" ? raw(res) : "[0]").str("out", o).s);
            }
        } else {
            using R2 = decltype(std::declval<LT>() >> cnl::constant<K>{});
            int id = add_inst(out, ev("Inst").str("kind", "ElShift").str("op", "shr").num("k", K).raw("lt", desc<LT>())
                                           .raw("rt", desc<int>()).raw("res_t", desc<R2>()));
            for (auto const& a : ls) {
                R2 res{};
                auto o = guarded([&] { res = a >> cnl::constant<K>{}; });
                out.put(ev("ElShift").num("i", id).raw("l", raw(a)).raw("res", o == "ok" ? raw(res) : "[0]").str("out", o).s);
            }
        }
        (void)sizeof(Res);
    }
}

// cnl::scale<-K, 2>(x): division by 2^K, truncated toward zero (what conversions between elastic scaled types with an
// exponent difference of K use)
template<int K, class LT>
void elscale_down(sink& out, std::vector<LT> const& ls)
{
    if constexpr (cnl::digits_v<LT> > K) {
        using R2 = decltype(cnl::_impl::scale<-K, 2>(std::declval<LT>()));
        int id = add_inst(out, ev("Inst").str("kind", "ElScale").str("op", "scale_down").num("k", K).raw("lt", desc<LT>())
                                       .raw("rt", desc<int>()).raw("res_t", desc<R2>()));
        for (auto const& a : ls) {
            R2 res{};
            auto o = guarded([&] { res = cnl::_impl::scale<-K, 2>(a); });
            out.put(ev("ElScale").num("i", id).raw("l", raw(a)).raw("res", o == "ok" ? raw(res) : "[0]").str("out", o).s);
        }
    }
}

// the six comparisons of two elastic_integers / an elastic_integer and a built-in integer (C05's comparison clause; the
// event has the shape of the scaled family's ScCmp and is judged by the same operator: by value)
template<class LT, class RT>
void elcmp(sink& out, std::vector<LT> const& ls, std::vector<RT> const& rs)
{
    if constexpr (requires(LT a, RT b) { a < b; a == b; }) {
        int id = add_inst(out, ev("Inst").str("kind", "ScCmp").str("op", "cmp").raw("lt", desc<LT>()).raw("rt", desc<RT>())
                                       .raw("res_t", desc<bool>()));
        for (auto const& a : ls) {
            for (auto const& b : rs) {
                bool r[6] = {};
                auto o = guarded([&] {
                    r[0] = a < b;
                    r[1] = a <= b;
                    r[2] = a > b;
                    r[3] = a >= b;
                    r[4] = a == b;
                    r[5] = a != b;
                });
                char buf[32];
                std::snprintf(buf, sizeof(buf), "[%d,%d,%d,%d,%d,%d]", r[0], r[1], r[2], r[3], r[4], r[5]);
                out.put(ev("ScCmp").num("i", id).raw("l", raw(a)).raw("r", raw(b)).raw("c", buf).str("out", o).s);
            }
        }
    }
}

template<class T>
void ellimits(sink& out)
{
    int id = add_inst(out, ev("Inst").str("kind", "ElLimits").str("op", "limits").raw("lt", desc<T>()).raw("rt", desc<T>())
                                   .raw("res_t", desc<T>()));
    out.put(ev("ElLimits").num("i", id).raw("lo", raw(std::numeric_limits<T>::lowest())).raw("hi", raw(std::numeric_limits<T>::max()))
                    .num("digits", std::numeric_limits<T>::digits).str("out", "ok").s);
}

template<class LT, class RT>
void el_pair(sink& out, int salt)
{
    // thorough: every 8th pair of 8-bit storage types over all 256 x 256 values, the others over the boundary sets
    // (tier 1) and more random values -- the whole tier stays below ~8 M events
    int nr = thorough() ? 8 : 3;
    bool ex8 = salt % 8 == 0;
    auto ls = number_values<LT>(nr, static_cast<std::uint64_t>(salt) * 10 + 1, thorough() ? 1 : -1, ex8);
    auto rs = number_values<RT>(nr, static_cast<std::uint64_t>(salt) * 10 + 2, thorough() ? 1 : -1, ex8);
    using namespace cnl::_impl;
    elbin<add_op>(out, "add", ls, rs);
    elbin<subtract_op>(out, "sub", ls, rs);
    elbin<multiply_op>(out, "mul", ls, rs);
    elbin<divide_op>(out, "div", ls, rs);
    elbin<modulo_op>(out, "mod", ls, rs);
    elcmp(out, ls, rs);
    if constexpr (!std::is_integral_v<LT>) {
        auto lw = number_values<LT>(thorough() ? 60 : 10, static_cast<std::uint64_t>(salt) * 10 + 3, thorough() ? 2 : 1);
        elneg(out, lw);
        elshift<1, true>(out, lw);
        elshift<3, true>(out, lw);
        elshift<1, false>(out, lw);
        elshift<2, false>(out, lw);
        elscale_down<1>(out, lw);
        elscale_down<8>(out, lw);
        elscale_down<30>(out, lw);
        elscale_down<31>(out, lw);
        elscale_down<32>(out, lw);
        elscale_down<63>(out, lw);
        ellimits<LT>(out);
    }
}

template<int D, class N = int>
using E = cnl::elastic_integer<D, N>;

int main(int argc, char** argv)
{
    if (argc < 2) {
        return 64;
    }
    install();
    sink out(argv[1], std::string("\"cc\":\"") + VERIF_CC + "\"");
    using i8 = std::int8_t;
    using u8 = std::uint8_t;
    using i16 = std::int16_t;
    using u16 = std::uint16_t;
    using i32 = std::int32_t;
    using u32 = std::uint32_t;
    using i64 = std::int64_t;
    using u64 = std::uint64_t;
#include VERIF_INST_FILE
    std::fprintf(stderr, "events=%llu insts=%d\n", out.n, out.ninst);
    return 0;
}
