// Recorder for the bit / digit-counting utilities (C18): one event per value carries every function's
// result; rotations are recorded per (value, count).
#include "describe.hpp"

using namespace vf;

template<class T>
std::vector<T> values(std::uint64_t salt)
{
    std::vector<T> v;
    if constexpr (sizeof(T) == 1) {
        return all_values<T>();
    } else if constexpr (sizeof(T) == 2) {
        if (thorough() || !is_signed_int<T>) {
            for (long k = std::numeric_limits<T>::min(); k <= std::numeric_limits<T>::max(); ++k) {
                v.push_back(static_cast<T>(k));
            }
            return v;
        }
    }
    return operands<T>(thorough() ? 5000 : 300, salt, 2);
}

template<class T>
void bits_unsigned(sink& out, std::uint64_t salt)
{
    int id = add_inst(out, ev("Inst").str("kind", "BitsU").str("op", "bits").raw("lt", ty<T>()).raw("rt", ty<T>()).raw("res_t", ty<T>()));
    int rid = add_inst(out, ev("Inst").str("kind", "Rot").str("op", "rot").raw("lt", ty<T>()).raw("rt", ty<T>()).raw("res_t", ty<T>()));
    auto vs = values<T>(salt);
    std::size_t n = 0;
    for (T x : vs) {
        int clz = 0, clo = 0, ctz = 0, cto = 0, pop = 0, ip2 = 0, l2 = 0, rb = 0, used = 0, ud = 0, lb = 0, tb = 0;
        T f2{}, c2{};
        auto o = guarded([&] {
            clz = cnl::countl_zero(x);
            clo = cnl::countl_one(x);
            ctz = cnl::countr_zero(x);
            cto = cnl::countr_one(x);
            pop = cnl::popcount(x);
            ip2 = cnl::ispow2(x) ? 1 : 0;
            f2 = cnl::floor2(x);
            l2 = cnl::log2p1(x);
            rb = cnl::countl_rb(x);
            used = cnl::countr_used(x);
            ud = cnl::used_digits(x);
            lb = cnl::leading_bits(x);
            tb = cnl::trailing_bits(x);
        });
        auto o2 = guarded([&] { c2 = cnl::ceil2(x); });
        char buf[400];
        std::snprintf(buf, sizeof(buf),
                      "{\"clz\":%d,\"clo\":%d,\"ctz\":%d,\"cto\":%d,\"pop\":%d,\"ispow2\":%d,\"log2p1\":%d,\"rb\":%d,\"used\":%d,"
                      "\"ud\":%d,\"lb\":%d,\"tb\":%d}",
                      clz, clo, ctz, cto, pop, ip2, l2, rb, used, ud, lb, tb);
        out.put(ev("BitsU").num("i", id).raw("x", enc(x)).raw("f", buf).raw("floor2", enc(f2)).raw("ceil2", o2 == "ok" ? enc(c2) : "[0]")
                        .str("ceil2_out", o2).str("out", o).s);
        // rotations: every count 0..2W for a subset of the values
        if (sizeof(T) == 1 || (n++ % (thorough() ? 16 : 256)) == 0 || x == std::numeric_limits<T>::max() || x == 1) {
            for (unsigned s = 0; s <= 2 * sizeof(T) * 8; ++s) {
                T rl{}, rr{};
                auto o3 = guarded([&] {
                    rl = cnl::rotl(x, s);
                    rr = cnl::rotr(x, s);
                });
                out.put(ev("Rot").num("i", rid).raw("x", enc(x)).num("s", s).raw("rotl", enc(rl)).raw("rotr", enc(rr)).str("out", o3).s);
            }
        }
    }
}

template<class T>
void bits_signed(sink& out, std::uint64_t salt)
{
    int id = add_inst(out, ev("Inst").str("kind", "BitsS").str("op", "bits").raw("lt", ty<T>()).raw("rt", ty<T>()).raw("res_t", ty<T>()));
    for (T x : values<T>(salt)) {
        int rsb = 0, rb = 0, used = 0, ud = 0, lb = 0, tb = 0;
        auto o = guarded([&] {
            rsb = cnl::countl_rsb(x);
            rb = cnl::countl_rb(x);
            used = cnl::countr_used(x);
            ud = cnl::used_digits(x);
            lb = cnl::leading_bits(x);
            tb = cnl::trailing_bits(x);
        });
        char buf[200];
        std::snprintf(buf, sizeof(buf), "{\"rsb\":%d,\"rb\":%d,\"used\":%d,\"ud\":%d,\"lb\":%d,\"tb\":%d}", rsb, rb, used, ud, lb, tb);
        out.put(ev("BitsS").num("i", id).raw("x", enc(x)).raw("f", buf).str("out", o).s);
    }
}

// used_digits / leading_bits on CNL integer wrappers (multi-limb wide_integer, elastic over wide): the counts that decide
// deduced digit numbers; W's value is assembled from 128-bit pieces and read back from its limbs
template<class W>
void bits_wrapper(sink& out, std::uint64_t salt)
{
    int id = add_inst(out, ev("Inst").str("kind", "BitsW").str("op", "digits").raw("lt", desc<W>()).raw("rt", desc<W>()).raw("res_t", desc<int>()));
    constexpr int D = cnl::digits_v<W>;
    std::vector<W> vs;
    auto both = [&](W const& v) {
        vs.push_back(v);
        if constexpr (cnl::numbers::signedness_v<W>) {
            vs.push_back(W(-v));
            vs.push_back(W(-v - make<W>(false, 1)));
        }
    };
    for (unsigned k : {0U, 1U, 2U, 3U, 5U, 7U, 8U, 255U, 256U, 65535U}) {
        both(make<W>(false, k));
    }
    rng r(salt);
    for (int sh = 0; sh + 2 < D; sh += (sh < 140 ? 7 : 31)) {
        W one = make<W>(false, 1);
        W p = W(one << sh);
        both(p);
        both(W(p + make<W>(false, r.g() % 1000)));
        both(W(p - one));
    }
    for (auto const& v : vs) {
        int ud = 0, lb = 0;
        auto o = guarded([&] {
            ud = cnl::used_digits(v);
            lb = cnl::leading_bits(v);
        });
        char buf[96];
        std::snprintf(buf, sizeof(buf), "{\"ud\":%d,\"lb\":%d}", ud, lb);
        out.put(ev("BitsW").num("i", id).raw("x", raw(v)).raw("f", buf).str("out", o).s);
    }
}

int main(int argc, char** argv)
{
    if (argc < 2) {
        return 64;
    }
    install();
    sink out(argv[1], std::string("\"cc\":\"") + VERIF_CC + "\"");
    bits_unsigned<std::uint8_t>(out, 1);
    bits_unsigned<std::uint16_t>(out, 2);
    bits_unsigned<std::uint32_t>(out, 3);
    bits_unsigned<std::uint64_t>(out, 4);
    bits_unsigned<unsigned long long>(out, 5);
    bits_unsigned<u128>(out, 6);
    bits_signed<std::int8_t>(out, 11);
    bits_signed<std::int16_t>(out, 12);
    bits_signed<std::int32_t>(out, 13);
    bits_signed<std::int64_t>(out, 14);
    bits_signed<long long>(out, 15);
    bits_signed<i128>(out, 16);
    bits_wrapper<cnl::wide_integer<200>>(out, 21);
    bits_wrapper<cnl::wide_integer<129, unsigned>>(out, 22);
    bits_wrapper<cnl::wide_integer<256, std::int32_t>>(out, 23);
    bits_wrapper<cnl::elastic_integer<150, cnl::wide_integer<8>>>(out, 24);
    bits_wrapper<cnl::elastic_integer<40>>(out, 25);
    std::fprintf(stderr, "events=%llu insts=%d\n", out.n, out.ninst);
    return 0;
}
