// Recorder for cnl::fraction (C16 arithmetic / order / reduce / canonical / hash / to-float; C17 from float).
#include "describe.hpp"

#include <functional>

using namespace vf;

template<class T>
std::string fdesc()
{
    return std::string("{\"k\":\"fraction\",\"num\":") + desc<T>() + ",\"den\":" + desc<T>() + "}";
}
template<class N, class D>
std::string fraw(cnl::fraction<N, D> const& f)
{
    return "[" + enc(f.numerator) + "," + enc(f.denominator) + "]";
}
template<class Fr>
std::string fdesc_of()
{
    using N = std::remove_cvref_t<decltype(std::declval<Fr>().numerator)>;
    using D = std::remove_cvref_t<decltype(std::declval<Fr>().denominator)>;
    return std::string("{\"k\":\"fraction\",\"num\":") + desc<N>() + ",\"den\":" + desc<D>() + "}";
}
template<class Fr>
Fr fzero()
{
    using N = std::remove_cvref_t<decltype(std::declval<Fr>().numerator)>;
    using D = std::remove_cvref_t<decltype(std::declval<Fr>().denominator)>;
    return Fr(N(0), D(1));
}

template<class T>
std::vector<T> comps(bool nonzero, int extra, std::uint64_t salt)
{
    std::vector<T> v;
    std::vector<T> src = operands<T>(extra, salt, thorough() ? 1 : 0);
    if constexpr (sizeof(T) == 1) {
        if (thorough()) {
            src = all_values<T>();
        }
    }
    for (T x : {T(1), T(2), T(3), T(-1), T(-2), T(-3), T(6), T(-6), T(10)}) {
        src.push_back(x);
    }
    for (T x : src) {
        if (!nonzero || x != 0) {
            v.push_back(x);
        }
    }
    return v;
}

template<class T>
void binary(sink& out, std::uint64_t salt)
{
    using F = cnl::fraction<T>;
    auto ns = comps<T>(false, 2, salt);
    auto ds = comps<T>(true, 2, salt + 1);
    if (sizeof(T) == 1 && thorough()) {
        // every 4-bit-magnitude component pair exhaustively
        ns.clear();
        ds.clear();
        for (int k = -15; k <= 15; ++k) {
            ns.push_back(static_cast<T>(k));
            if (k) {
                ds.push_back(static_cast<T>(k));
            }
        }
        for (T x : {std::numeric_limits<T>::min(), std::numeric_limits<T>::max()}) {
            ns.push_back(x);
            ds.push_back(x);
        }
    }
    std::vector<F> fs;
    for (T n : ns) {
        for (T d : ds) {
            fs.push_back(F(n, d));
        }
    }
    using Res = decltype(std::declval<F>() + std::declval<F>());
    int ids[4];
    char const* names[4] = {"add", "sub", "mul", "div"};
    for (int k = 0; k < 4; ++k) {
        ids[k] = add_inst(out, ev("Inst").str("kind", "FrBin").str("op", names[k]).raw("lt", fdesc<T>()).raw("rt", fdesc<T>())
                                       .raw("res_t", fdesc_of<Res>()));
    }
    int cid = add_inst(out, ev("Inst").str("kind", "FrCmp").str("op", "cmp").raw("lt", fdesc<T>()).raw("rt", fdesc<T>()).raw("res_t", desc<bool>()));
    int hid = add_inst(out, ev("Inst").str("kind", "FrHash").str("op", "hash").raw("lt", fdesc<T>()).raw("rt", fdesc<T>()).raw("res_t", desc<bool>()));
    // quick: ~75 x 75 operand pairs per type; thorough: the 8-bit set in full, wider types ~380 x 380 pairs
    std::size_t stride = !thorough() ? (fs.size() > 150 ? fs.size() / 75 : 1) : (sizeof(T) == 1 || fs.size() <= 380) ? 1 : fs.size() / 380;
    for (std::size_t ia = 0; ia < fs.size(); ia += stride) {
        for (std::size_t ib = 0; ib < fs.size(); ib += (stride > 1 ? stride - 1 : 1)) {
            F const& a = fs[ia];
            F const& b = fs[ib];
            for (int k = 0; k < 4; ++k) {
                if (k == 3 && b.numerator == 0) {
                    continue;
                }
                Res r = fzero<Res>();
                auto o = guarded([&] {
                    r = k == 0 ? a + b : k == 1 ? a - b : k == 2 ? a * b : a / b;
                });
                out.put(ev("FrBin").num("i", ids[k]).raw("l", fraw(a)).raw("r", fraw(b))
                                .raw("res", o == "ok" ? fraw(r) : "[[0],[0]]").str("out", o).s);
            }
            bool c[6] = {};
            auto o = guarded([&] {
                c[0] = a < b;
                c[1] = a <= b;
                c[2] = a > b;
                c[3] = a >= b;
                c[4] = a == b;
                c[5] = a != b;
            });
            char buf[32];
            std::snprintf(buf, sizeof(buf), "[%d,%d,%d,%d,%d,%d]", c[0], c[1], c[2], c[3], c[4], c[5]);
            out.put(ev("FrCmp").num("i", cid).raw("l", fraw(a)).raw("r", fraw(b)).raw("c", buf).str("out", o).s);
        }
    }
    // hash contract on pairs of equal fractions: (n, d) vs (k*n, k*d) for every k that keeps both in range,
    // plus unequal neighbours
    for (std::size_t ia = 0; ia < fs.size(); ia += stride) {
        F const& a = fs[ia];
        for (int k : {-3, -2, -1, 1, 2, 3, 5, 7}) {
            i128 n2 = static_cast<i128>(a.numerator) * k;
            i128 d2 = static_cast<i128>(a.denominator) * k;
            if (n2 < std::numeric_limits<T>::min() || n2 > std::numeric_limits<T>::max() || d2 < std::numeric_limits<T>::min()
                || d2 > std::numeric_limits<T>::max()) {
                continue;
            }
            F b(static_cast<T>(n2), static_cast<T>(d2));
            std::size_t h1 = 0, h2 = 0;
            auto o = guarded([&] {
                h1 = std::hash<F>{}(a);
                h2 = std::hash<F>{}(b);
            });
            out.put(ev("FrHash").num("i", hid).raw("l", fraw(a)).raw("r", fraw(b)).raw("h1", enc(static_cast<std::uint64_t>(h1)))
                            .raw("h2", enc(static_cast<std::uint64_t>(h2))).str("out", o).s);
        }
    }
}

template<class T>
void unary(sink& out, std::uint64_t salt)
{
    using F = cnl::fraction<T>;
    std::vector<F> fs;
    if constexpr (sizeof(T) == 1) {
        for (T n : all_values<T>()) {
            for (T d : all_values<T>()) {
                if (d != 0) {
                    fs.push_back(F(n, d));
                }
            }
        }
    } else {
        auto ns = comps<T>(false, thorough() ? 60 : 12, salt);
        auto ds = comps<T>(true, thorough() ? 60 : 12, salt + 1);
        for (T n : ns) {
            for (T d : ds) {
                fs.push_back(F(n, d));
            }
        }
    }
    using U = decltype(-std::declval<F>());
    int nid = add_inst(out, ev("Inst").str("kind", "FrUn").str("op", "neg").raw("lt", fdesc<T>()).raw("rt", fdesc<T>()).raw("res_t", fdesc_of<U>()));
    int pid = add_inst(out, ev("Inst").str("kind", "FrUn").str("op", "plus").raw("lt", fdesc<T>()).raw("rt", fdesc<T>()).raw("res_t", fdesc_of<U>()));
    int rid = add_inst(out, ev("Inst").str("kind", "FrReduce").str("op", "reduce").raw("lt", fdesc<T>()).raw("rt", fdesc<T>()).raw("res_t", fdesc<T>()));
    int cid = add_inst(out, ev("Inst").str("kind", "FrReduce").str("op", "canonical").raw("lt", fdesc<T>()).raw("rt", fdesc<T>()).raw("res_t", fdesc<T>()));
    int fid = add_inst(out, ev("Inst").str("kind", "FrFloat").str("op", "to_float").raw("lt", fdesc<T>()).raw("rt", desc<float>()).raw("res_t", desc<float>()));
    int did = add_inst(out, ev("Inst").str("kind", "FrFloat").str("op", "to_double").raw("lt", fdesc<T>()).raw("rt", desc<double>()).raw("res_t", desc<double>()));
    std::size_t stride = (sizeof(T) == 1 && !thorough()) ? 11 : 1;
    for (std::size_t k = 0; k < fs.size(); k += stride) {
        F const& a = fs[k];
        {
            U r = fzero<U>();
            auto o = guarded([&] { r = -a; });
            out.put(ev("FrUn").num("i", nid).raw("l", fraw(a)).raw("res", o == "ok" ? fraw(r) : "[[0],[0]]").str("out", o).s);
            o = guarded([&] { r = +a; });
            out.put(ev("FrUn").num("i", pid).raw("l", fraw(a)).raw("res", o == "ok" ? fraw(r) : "[[0],[0]]").str("out", o).s);
        }
        {
            F r = fzero<F>();
            auto o = guarded([&] { r = cnl::_impl::reduce(a); });
            out.put(ev("FrReduce").num("i", rid).raw("l", fraw(a)).raw("res", o == "ok" ? fraw(r) : "[[0],[0]]").str("out", o).s);
            o = guarded([&] { r = cnl::_impl::canonical(a); });
            out.put(ev("FrReduce").num("i", cid).raw("l", fraw(a)).raw("res", o == "ok" ? fraw(r) : "[[0],[0]]").str("out", o).s);
        }
        {
            float f = 0;
            double d = 0;
            auto o = guarded([&] { f = static_cast<float>(a); });
            out.put(ev("FrFloat").num("i", fid).raw("l", fraw(a)).raw("res", enc_float(f)).str("out", o).s);
            o = guarded([&] { d = static_cast<double>(a); });
            out.put(ev("FrFloat").num("i", did).raw("l", fraw(a)).raw("res", enc_float(d)).str("out", o).s);
        }
    }
}

// C17 stimuli: exponent x coarse mantissa lattice, integers, dyadic and decimal fractions, values near the
// numerator limit, random full mantissas
template<class Fl, class T>
void from_float(sink& out, std::uint64_t salt)
{
    using F = cnl::fraction<T>;
    int id = add_inst(out, ev("Inst").str("kind", "FrFromFloat").str("op", "from_float").raw("lt", desc<Fl>()).raw("rt", fdesc<T>()).raw("res_t", fdesc<T>()));
    std::vector<Fl> xs;
    Fl mx = static_cast<Fl>(std::numeric_limits<T>::max());
    int maxe = static_cast<int>(sizeof(T) * 8);
    for (int e = -(thorough() ? 100 : 40); e <= maxe; ++e) {
        int steps = thorough() ? 32 : 8;      // (every rejected event costs an evaluation of the as-coded search)
        for (int m = 0; m < steps; ++m) {
            Fl x = std::ldexp(static_cast<Fl>(1) + static_cast<Fl>(m) / static_cast<Fl>(steps), e);
            xs.push_back(x);
            xs.push_back(-x);
        }
    }
    for (int k = 0; k <= (thorough() ? 300 : 60); ++k) {
        xs.push_back(static_cast<Fl>(k));
        xs.push_back(static_cast<Fl>(k) / 8);
        xs.push_back(static_cast<Fl>(k) / 10);
        xs.push_back(static_cast<Fl>(k) / 3);
        xs.push_back(-static_cast<Fl>(k) / 7);
    }
    for (int d = 0; d < 40; ++d) {
        xs.push_back(mx - static_cast<Fl>(d));
        xs.push_back(mx - static_cast<Fl>(d) / 2);
        xs.push_back(-(mx - static_cast<Fl>(d) / 4));
        xs.push_back(std::nextafter(mx, static_cast<Fl>(0)));
    }
    rng r(salt);
    for (int k = 0; k < (thorough() ? 3000 : 300); ++k) {
        Fl m = static_cast<Fl>(r.g() >> 11) / static_cast<Fl>(1ULL << 53);
        xs.push_back(std::ldexp(m, static_cast<int>(r.g() % static_cast<unsigned>(maxe + 20)) - 20) * ((r.g() & 1) ? 1 : -1));
    }
    for (Fl x : xs) {
        if (!(x == x) || x - x != 0 || (x < 0 ? -x : x) > mx) {
            continue;
        }
        F f = fzero<F>();
        auto o = guarded([&] { f = cnl::make_fraction<T>(x); }, 2000);
        out.put(ev("FrFromFloat").num("i", id).raw("x", enc_float(x)).raw("res", o == "ok" ? fraw(f) : "[[0],[0]]").str("out", o).s);
    }
}

// heterogeneous operands: the four component types may all differ (each cross product has its own promoted type)
template<class FA, class FB>
void binary_het(sink& out, std::uint64_t salt)
{
    using AN = std::remove_cvref_t<decltype(std::declval<FA>().numerator)>;
    using AD = std::remove_cvref_t<decltype(std::declval<FA>().denominator)>;
    using BN = std::remove_cvref_t<decltype(std::declval<FB>().numerator)>;
    using BD = std::remove_cvref_t<decltype(std::declval<FB>().denominator)>;
    std::vector<FA> as;
    std::vector<FB> bs;
    {
        auto n = comps<AN>(false, 1, salt);
        auto d = comps<AD>(true, 1, salt + 1);
        for (std::size_t k = 0; k < n.size(); ++k) {
            as.push_back(FA(n[k], d[(k * 5 + 1) % d.size()]));
            as.push_back(FA(n[k], d[(k * 3 + 2) % d.size()]));
        }
        for (AD x : {AD(1), AD(3), AD(-3)}) {
            as.push_back(FA(AN(1), x));
            as.push_back(FA(std::numeric_limits<AN>::max(), x));
            as.push_back(FA(static_cast<AN>(std::numeric_limits<AN>::max() / 2 + 1), x));
        }
    }
    {
        auto n = comps<BN>(false, 1, salt + 2);
        auto d = comps<BD>(true, 1, salt + 3);
        for (std::size_t k = 0; k < n.size(); ++k) {
            bs.push_back(FB(n[k], d[(k * 7 + 1) % d.size()]));
            bs.push_back(FB(n[k], d[(k * 2 + 3) % d.size()]));
        }
        for (BD x : {BD(1), BD(3), BD(-3)}) {
            bs.push_back(FB(BN(1), x));
            bs.push_back(FB(std::numeric_limits<BN>::max(), x));
            bs.push_back(FB(static_cast<BN>(std::numeric_limits<BN>::max() / 2 + 1), x));
        }
    }
    int ids[4];
    char const* names[4] = {"add", "sub", "mul", "div"};
    using R0 = decltype(std::declval<FA>() + std::declval<FB>());
    using R1 = decltype(std::declval<FA>() - std::declval<FB>());
    using R2 = decltype(std::declval<FA>() * std::declval<FB>());
    using R3 = decltype(std::declval<FA>() / std::declval<FB>());
    std::string rts[4] = {fdesc_of<R0>(), fdesc_of<R1>(), fdesc_of<R2>(), fdesc_of<R3>()};
    for (int k = 0; k < 4; ++k) {
        ids[k] = add_inst(out, ev("Inst").str("kind", "FrBin").str("op", names[k]).raw("lt", fdesc_of<FA>()).raw("rt", fdesc_of<FB>()).raw("res_t", rts[k]));
    }
    int cid = add_inst(out, ev("Inst").str("kind", "FrCmp").str("op", "cmp").raw("lt", fdesc_of<FA>()).raw("rt", fdesc_of<FB>()).raw("res_t", desc<bool>()));
    std::size_t sa = thorough() ? 1 : (as.size() > 60 ? as.size() / 60 : 1);
    std::size_t sb = thorough() ? 1 : (bs.size() > 60 ? bs.size() / 60 : 1);
    for (std::size_t ia = 0; ia < as.size(); ia += sa) {
        for (std::size_t ib = 0; ib < bs.size(); ib += sb) {
            FA const& a = as[ia];
            FB const& b = bs[ib];
            {
                R0 r = fzero<R0>();
                auto o = guarded([&] { r = a + b; });
                out.put(ev("FrBin").num("i", ids[0]).raw("l", fraw(a)).raw("r", fraw(b)).raw("res", o == "ok" ? fraw(r) : "[[0],[0]]").str("out", o).s);
            }
            {
                R1 r = fzero<R1>();
                auto o = guarded([&] { r = a - b; });
                out.put(ev("FrBin").num("i", ids[1]).raw("l", fraw(a)).raw("r", fraw(b)).raw("res", o == "ok" ? fraw(r) : "[[0],[0]]").str("out", o).s);
            }
            {
                R2 r = fzero<R2>();
                auto o = guarded([&] { r = a * b; });
                out.put(ev("FrBin").num("i", ids[2]).raw("l", fraw(a)).raw("r", fraw(b)).raw("res", o == "ok" ? fraw(r) : "[[0],[0]]").str("out", o).s);
            }
            if (b.numerator != 0) {
                R3 r = fzero<R3>();
                auto o = guarded([&] { r = a / b; });
                out.put(ev("FrBin").num("i", ids[3]).raw("l", fraw(a)).raw("r", fraw(b)).raw("res", o == "ok" ? fraw(r) : "[[0],[0]]").str("out", o).s);
            }
            bool c[6] = {};
            auto o = guarded([&] {
                c[0] = a < b;
                c[1] = a <= b;
                c[2] = a > b;
                c[3] = a >= b;
                c[4] = a == b;
                c[5] = a != b;
            });
            char buf[32];
            std::snprintf(buf, sizeof(buf), "[%d,%d,%d,%d,%d,%d]", c[0], c[1], c[2], c[3], c[4], c[5]);
            out.put(ev("FrCmp").num("i", cid).raw("l", fraw(a)).raw("r", fraw(b)).raw("c", buf).str("out", o).s);
        }
    }
}

// class template argument deduction (C15's CTAD clause; the only deduction guides of the library are fraction's):
// cnl::fraction{x} for floating-point x -- the deduced component type must hold every integral initializer of the
// format exactly, and the result obeys C17's contract for that component type -- and for integer x (n/1 in the
// integer's own type), and the implicit two-argument guide.
template<class Fl>
void ctad_float(sink& out, std::uint64_t salt)
{
    using F = decltype(cnl::fraction{Fl{}});
    int id = add_inst(out, ev("Inst").str("kind", "FrCtad").str("op", "ctad_float").raw("lt", desc<Fl>()).raw("rt", fdesc_of<F>()).raw("res_t", fdesc_of<F>()));
    std::vector<Fl> xs;
    int const p = std::numeric_limits<Fl>::digits;
    for (int k = 0; k <= p; ++k) {
        Fl b = std::ldexp(static_cast<Fl>(1), k);
        for (Fl x : {b, b - 1, b + 1, b - 2, b / 2 + 1, b + b / 2, b - b / 4 + 1}) {
            xs.push_back(x);
            xs.push_back(-x);
        }
    }
    for (int k = 0; k <= 40; ++k) {
        xs.push_back(static_cast<Fl>(k));
        xs.push_back(static_cast<Fl>(k) / 8);
        xs.push_back(-static_cast<Fl>(k) / 16);
        xs.push_back(static_cast<Fl>(k) / 10);
        xs.push_back(static_cast<Fl>(k) / 3);
    }
    rng r(salt);
    for (int k = 0; k < (thorough() ? 2000 : 200); ++k) {
        // random integral values of every bit length up to the significand width, and random fractions
        int bits = 1 + static_cast<int>(r.g() % static_cast<unsigned>(p));
        Fl m = std::floor(std::ldexp(static_cast<Fl>(r.g() >> 1) / static_cast<Fl>(1ULL << 63), bits));
        xs.push_back((r.g() & 1) ? m : -m);
        xs.push_back(std::ldexp(static_cast<Fl>(r.g() >> 11) / static_cast<Fl>(1ULL << 53), static_cast<int>(r.g() % 40) - 20));
    }
    for (Fl x : xs) {
        if (!(x == x) || x - x != 0) {
            continue;
        }
        F f = fzero<F>();
        auto o = guarded([&] { f = cnl::fraction{x}; }, 2000);
        out.put(ev("FrCtad").num("i", id).raw("x", enc_float(x)).raw("res", o == "ok" ? fraw(f) : "[[0],[0]]").str("out", o).s);
    }
}

template<class I>
void ctad_int(sink& out, std::uint64_t salt)
{
    using F = decltype(cnl::fraction{I{}});
    using F2 = decltype(cnl::fraction{I{}, I{}});
    int id = add_inst(out, ev("Inst").str("kind", "FrCtadInt").str("op", "ctad_int").raw("lt", desc<I>()).raw("rt", fdesc_of<F>()).raw("res_t", fdesc_of<F>()));
    int id2 = add_inst(out, ev("Inst").str("kind", "FrCtadInt").str("op", "ctad_pair").raw("lt", desc<I>()).raw("rt", fdesc_of<F2>()).raw("res_t", fdesc_of<F2>()));
    auto vs = operands<I>(2, salt, 0);
    for (I x : vs) {
        F f = fzero<F>();
        auto o = guarded([&] { f = cnl::fraction{x}; });
        out.put(ev("FrCtadInt").num("i", id).raw("l", enc(x)).raw("r", enc(I(1))).raw("res", o == "ok" ? fraw(f) : "[[0],[0]]").str("out", o).s);
    }
    std::size_t k = 0;
    for (I x : vs) {
        I y = vs[(k++ * 7 + 3) % vs.size()];
        if (y == 0) {
            continue;
        }
        F2 f = fzero<F2>();
        auto o = guarded([&] { f = cnl::fraction{x, y}; });
        out.put(ev("FrCtadInt").num("i", id2).raw("l", enc(x)).raw("r", enc(y)).raw("res", o == "ok" ? fraw(f) : "[[0],[0]]").str("out", o).s);
    }
}

int main(int argc, char** argv)
{
    if (argc < 2) {
        return 64;
    }
    install();
    sink out(argv[1], std::string("\"cc\":\"") + VERIF_CC + "\"");
    std::string part = argc > 2 ? argv[2] : "all";
    if (part == "all" || part == "ops") {
        binary<std::int8_t>(out, 1);
        binary<std::int16_t>(out, 2);
        binary<std::int32_t>(out, 3);
        binary<std::int64_t>(out, 4);
        unary<std::int8_t>(out, 11);
        unary<std::int16_t>(out, 12);
        unary<std::int32_t>(out, 13);
        unary<std::int64_t>(out, 14);
        using std::int8_t, std::int16_t, std::int32_t, std::int64_t;
        binary_het<cnl::fraction<int32_t, int32_t>, cnl::fraction<int64_t, int32_t>>(out, 41);
        binary_het<cnl::fraction<int64_t, int32_t>, cnl::fraction<int32_t, int32_t>>(out, 42);
        binary_het<cnl::fraction<int32_t, int64_t>, cnl::fraction<int32_t, int32_t>>(out, 43);
        binary_het<cnl::fraction<int32_t, int32_t>, cnl::fraction<int32_t, int64_t>>(out, 44);
        binary_het<cnl::fraction<int8_t, int16_t>, cnl::fraction<int64_t, int8_t>>(out, 45);
        binary_het<cnl::fraction<int16_t, int64_t>, cnl::fraction<int32_t, int16_t>>(out, 46);
        binary_het<cnl::fraction<int64_t, int64_t>, cnl::fraction<int32_t, int8_t>>(out, 47);
        binary_het<cnl::fraction<int8_t, int8_t>, cnl::fraction<int64_t, int64_t>>(out, 48);
    }
    if (part == "all" || part == "float") {
        from_float<float, std::int16_t>(out, 21);
        from_float<float, std::int32_t>(out, 22);
        from_float<double, std::int32_t>(out, 23);
        from_float<double, std::int64_t>(out, 24);
        from_float<long double, std::int64_t>(out, 25);
        from_float<float, std::int8_t>(out, 26);
        ctad_float<float>(out, 31);
        ctad_float<double>(out, 32);
        ctad_float<long double>(out, 33);
        ctad_int<std::int8_t>(out, 34);
        ctad_int<std::int16_t>(out, 35);
        ctad_int<std::int32_t>(out, 36);
        ctad_int<std::int64_t>(out, 37);
        ctad_int<std::uint32_t>(out, 38);
        ctad_int<cnl::int128_t>(out, 39);
    }
    std::fprintf(stderr, "events=%llu insts=%d\n", out.n, out.ninst);
    return 0;
}
