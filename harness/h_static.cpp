// Recorder for C11: an interpreter that executes TLC-generated programs (VERIF_PROGRAMS, one JSON array per line)
// on a register file of real static_number objects and logs the abstract state after every step.
// MENU selects the type menu (same rounding/overflow tags within a menu); DST selects the destination register
// this translation unit implements (steps with another destination are executed by the other units' binaries:
// every binary replays whole programs but only RECORDS and EXECUTES steps via the dispatcher compiled into it).
#include "describe.hpp"

using namespace vf;

#ifndef MENU
#define MENU 0
#endif

#if MENU == 0
using RT = cnl::nearest_rounding_tag;
using OT = cnl::saturated_overflow_tag;
#define MENU_NAME "nearest_saturated"
using T1 = cnl::static_number<10, -4, RT, OT>;
using T2 = cnl::static_number<24, -20, RT, OT>;
using T3 = cnl::static_number<40, 6, RT, OT>;
using T4 = cnl::static_number<7, 0, RT, OT>;
#elif MENU == 1
using RT = cnl::nearest_rounding_tag;
using OT = cnl::_impl::throwing_overflow_tag;
#define MENU_NAME "nearest_throwing"
using T1 = cnl::static_number<31, -16, RT, OT>;
using T2 = cnl::static_number<15, -8, RT, OT>;
using T3 = cnl::static_number<24, -30, RT, OT>;
using T4 = cnl::static_number<4, 2, RT, OT>;
#elif MENU == 2
using RT = cnl::neg_inf_rounding_tag;
using OT = cnl::trapping_overflow_tag;
#define MENU_NAME "neg_inf_trapping"
using T1 = cnl::static_number<12, -6, RT, OT>;
using T2 = cnl::static_number<30, -30, RT, OT>;
using T3 = cnl::static_number<20, 0, RT, OT>;
using T4 = cnl::static_number<100, -50, RT, OT>;
#elif MENU == 4
// digit counts whose sums and products are exact multiples of the 32-bit limb width (64, 96, 128, 192): results live
// in multi-limb wide_integer storage that needs one more bit than its digits
using RT = cnl::nearest_rounding_tag;
using OT = cnl::saturated_overflow_tag;
#define MENU_NAME "nearest_saturated_limb_aligned"
using T1 = cnl::static_integer<64, RT, OT>;
using T2 = cnl::static_integer<32, RT, OT>;
using T3 = cnl::static_integer<127, RT, OT>;
using T4 = cnl::static_integer<96, RT, OT>;
#else
using RT = cnl::tie_to_pos_inf_rounding_tag;
using OT = cnl::saturated_overflow_tag;
#define MENU_NAME "tie_saturated"
using T1 = cnl::static_integer<20, RT, OT, std::int8_t>;
using T2 = cnl::static_integer<31, RT, OT, std::int8_t>;
using T3 = cnl::static_integer<8, RT, OT, std::int8_t>;
using T4 = cnl::static_integer<50, RT, OT, std::int8_t>;
#endif

struct regs_t {
    T1 r1{};
    T2 r2{};
    T3 r3{};
    T4 r4{};
};

template<int K>
auto& reg(regs_t& r)
{
    if constexpr (K == 1) return r.r1;
    else if constexpr (K == 2) return r.r2;
    else if constexpr (K == 3) return r.r3;
    else return r.r4;
}

template<class T>
std::vector<T> table()
{
    return number_values<T>(6, 4242, 1);
}

template<int K>
std::string load(regs_t& r, int vi)
{
    using T = std::remove_reference_t<decltype(reg<K>(r))>;
    static auto const tab = table<T>();
    reg<K>(r) = tab[static_cast<std::size_t>(vi) % tab.size()];
    return raw(reg<K>(r));
}

template<int A, int B, int D>
std::string bin(regs_t& r, std::string const& op)
{
    auto& a = reg<A>(r);
    auto& b = reg<B>(r);
    auto& d = reg<D>(r);
    using TD = std::remove_reference_t<decltype(d)>;
    return guarded([&] {
        if (op == "add") {
            d = static_cast<TD>(a + b);
        } else if (op == "sub") {
            d = static_cast<TD>(a - b);
        } else if (op == "mul") {
            d = static_cast<TD>(a * b);
        } else {
            d = static_cast<TD>(a / b);
        }
    });
}

template<int A, int B>
std::string bin_d(regs_t& r, std::string const& op, int d)
{
    switch (d) {
    case 1: return bin<A, B, 1>(r, op);
    case 2: return bin<A, B, 2>(r, op);
    case 3: return bin<A, B, 3>(r, op);
    default: return bin<A, B, 4>(r, op);
    }
}
template<int A>
std::string bin_bd(regs_t& r, std::string const& op, int b, int d)
{
    switch (b) {
    case 1: return bin_d<A, 1>(r, op, d);
    case 2: return bin_d<A, 2>(r, op, d);
    case 3: return bin_d<A, 3>(r, op, d);
    default: return bin_d<A, 4>(r, op, d);
    }
}
std::string bin_abd(regs_t& r, std::string const& op, int a, int b, int d)
{
    switch (a) {
    case 1: return bin_bd<1>(r, op, b, d);
    case 2: return bin_bd<2>(r, op, b, d);
    case 3: return bin_bd<3>(r, op, b, d);
    default: return bin_bd<4>(r, op, b, d);
    }
}

std::string raw_of(regs_t& r, int k)
{
    switch (k) {
    case 1: return raw(r.r1);
    case 2: return raw(r.r2);
    case 3: return raw(r.r3);
    default: return raw(r.r4);
    }
}

// minimal parser for the program lines written by GenPrograms (flat objects with string / integer fields)
static std::string field_s(std::string const& o, char const* k)
{
    auto p = o.find(std::string("\"") + k + "\":\"");
    if (p == std::string::npos) return "";
    p += std::strlen(k) + 4;
    return o.substr(p, o.find('"', p) - p);
}
static int field_i(std::string const& o, char const* k)
{
    auto p = o.find(std::string("\"") + k + "\":");
    if (p == std::string::npos) return -1;
    return std::atoi(o.c_str() + p + std::strlen(k) + 3);
}

int main(int argc, char** argv)
{
    if (argc < 2) {
        return 64;
    }
    install();
    sink out(argv[1], std::string("\"cc\":\"") + VERIF_CC + "\"");
    char const* pp = std::getenv("VERIF_PROGRAMS");
    if (!pp) {
        std::fprintf(stderr, "VERIF_PROGRAMS not set\n");
        return 72;
    }
    std::ifstream in(pp);
    int id = add_inst(out, ev("Inst").str("kind", "StStep").str("op", "step").str("menu", MENU_NAME)
                                   .raw("lt", "[" + desc<T1>() + "," + desc<T2>() + "," + desc<T3>() + "," + desc<T4>() + "]")
                                   .raw("rt", desc<int>()).raw("res_t", desc<int>()));
    std::string line;
    long prog = 0;
    while (std::getline(in, line)) {
        ++prog;
        regs_t r;
        out.put(ev("StReset").num("i", id).num("prog", prog).s);
        std::size_t pos = 0;
        int k = 0;
        while ((pos = line.find('{', pos)) != std::string::npos) {
            auto end = line.find('}', pos);
            std::string o = line.substr(pos, end - pos + 1);
            pos = end + 1;
            ++k;
            if (field_s(o, "k") == "load") {
                int rr = field_i(o, "r");
                int vi = field_i(o, "vi");
                std::string v = rr == 1 ? load<1>(r, vi) : rr == 2 ? load<2>(r, vi) : rr == 3 ? load<3>(r, vi) : load<4>(r, vi);
                out.put(ev("StLoad").num("i", id).num("prog", prog).num("k", k).num("r", rr).raw("v", v).s);
            } else {
                std::string op = field_s(o, "op");
                int a = field_i(o, "a"), b = field_i(o, "b"), d = field_i(o, "d");
                std::string va = raw_of(r, a), vb = raw_of(r, b), before = raw_of(r, d);
                if (op == "div" && vb == "[0]") {
                    continue;      // zero divisors are outside the domain
                }
                std::string o2 = bin_abd(r, op, a, b, d);
                out.put(ev("StStep").num("i", id).num("prog", prog).num("k", k).str("op", op).num("a", a).num("b", b).num("d", d)
                                .raw("va", va).raw("vb", vb).raw("before", before).raw("after", raw_of(r, d))
                                .raw("all", "[" + raw_of(r, 1) + "," + raw_of(r, 2) + "," + raw_of(r, 3) + "," + raw_of(r, 4) + "]").str("out", o2).s);
            }
        }
    }
    std::fprintf(stderr, "events=%llu insts=%d\n", out.n, out.ninst);
    return 0;
}
