// Recorder for C11: an interpreter that executes TLC-generated programs (VERIF_PROGRAMS, one JSON array per line)
// on a register file of real static_number objects and logs the abstract state after every step.
// MENU selects the type menu (same rounding/overflow tags within a menu); DST selects the destination register
// this translation unit implements (steps with another destination are executed by the other units' binaries:
// every binary replays whole programs but only RECORDS and EXECUTES steps via the dispatcher compiled into it).
#include "describe.hpp"

using namespace vf;

#ifndef MENU
#define MENU 0
#endif

#if MENU == 0
using RT = cnl::nearest_rounding_tag;
using OT = cnl::saturated_overflow_tag;
#define MENU_NAME "nearest_saturated"
using T1 = cnl::static_number<10, -4, RT, OT>;
using T2 = cnl::static_number<24, -20, RT, OT>;
using T3 = cnl::static_number<40, 6, RT, OT>;
using T4 = cnl::static_number<7, 0, RT, OT>;
#elif MENU == 1
using RT = cnl::nearest_rounding_tag;
using OT = cnl::_impl::throwing_overflow_tag;
#define MENU_NAME "nearest_throwing"
using T1 = cnl::static_number<31, -16, RT, OT>;
using T2 = cnl::static_number<15, -8, RT, OT>;
using T3 = cnl::static_number<24, -30, RT, OT>;
using T4 = cnl::static_number<4, 2, RT, OT>;
#elif MENU == 2
using RT = cnl::neg_inf_rounding_tag;
using OT = cnl::trapping_overflow_tag;
#define MENU_NAME "neg_inf_trapping"
using T1 = cnl::static_number<12, -6, RT, OT>;
using T2 = cnl::static_number<30, -30, RT, OT>;
using T3 = cnl::static_number<20, 0, RT, OT>;
using T4 = cnl::static_number<100, -50, RT, OT>;
#elif MENU == 4
// digit counts whose sums and products are exact multiples of the 32-bit limb width (64, 96, 128, 192): results live
// in multi-limb wide_integer storage that needs one more bit than its digits
using RT = cnl::nearest_rounding_tag;
using OT = cnl::saturated_overflow_tag;
#define MENU_NAME "nearest_saturated_limb_aligned"
using T1 = cnl::static_integer<64, RT, OT>;
using T2 = cnl::static_integer<32, RT, OT>;
using T3 = cnl::static_integer<127, RT, OT>;
using T4 = cnl::static_integer<96, RT, OT>;
#elif MENU == 5
// unsigned Narrowest (round 9): registers whose range is [0, 2^digits - 1]; 16-digit registers whose products fill a
// 32-bit storage word exactly (a 32-digit unsigned register itself does not compile under a checked tag: its square needs a
// 65-digit comparison) -- unary minus of such intermediates, subtraction below zero and the conversions between them
using RT = cnl::nearest_rounding_tag;
using OT = cnl::_impl::throwing_overflow_tag;
#define MENU_NAME "nearest_throwing_unsigned"
using T1 = cnl::static_number<16, -8, RT, OT, unsigned>;
using T2 = cnl::static_number<16, 0, RT, OT, unsigned>;
using T3 = cnl::static_number<31, -4, RT, OT, unsigned>;
using T4 = cnl::static_number<8, 2, RT, OT, unsigned>;
#else
using RT = cnl::tie_to_pos_inf_rounding_tag;
using OT = cnl::saturated_overflow_tag;
#define MENU_NAME "tie_saturated"
using T1 = cnl::static_integer<20, RT, OT, std::int8_t>;
using T2 = cnl::static_integer<31, RT, OT, std::int8_t>;
using T3 = cnl::static_integer<8, RT, OT, std::int8_t>;
using T4 = cnl::static_integer<50, RT, OT, std::int8_t>;
#endif

struct regs_t {
    T1 r1{};
    T2 r2{};
    T3 r3{};
    T4 r4{};
};

template<int K>
auto& reg(regs_t& r)
{
    if constexpr (K == 1) return r.r1;
    else if constexpr (K == 2) return r.r2;
    else if constexpr (K == 3) return r.r3;
    else return r.r4;
}

template<class T>
std::vector<T> table()
{
    return number_values<T>(6, 4242, 1);
}

template<int K>
std::string load(regs_t& r, int vi)
{
    using T = std::remove_reference_t<decltype(reg<K>(r))>;
    static auto const tab = table<T>();
    reg<K>(r) = tab[static_cast<std::size_t>(vi) % tab.size()];
    return raw(reg<K>(r));
}

template<int A, int B, int D>
std::string bin(regs_t& r, std::string const& op)
{
    auto& a = reg<A>(r);
    auto& b = reg<B>(r);
    auto& d = reg<D>(r);
    using TD = std::remove_reference_t<decltype(d)>;
    return guarded([&] {
        if (op == "add") {
            d = static_cast<TD>(a + b);
        } else if (op == "sub") {
            d = static_cast<TD>(a - b);
        } else if (op == "mul") {
            d = static_cast<TD>(a * b);
        } else if (op == "mod") {
            d = static_cast<TD>(a % b);
        } else {
            d = static_cast<TD>(a / b);
        }
    });
}

template<int A, int B>
std::string bin_d(regs_t& r, std::string const& op, int d)
{
    switch (d) {
    case 1: return bin<A, B, 1>(r, op);
    case 2: return bin<A, B, 2>(r, op);
    case 3: return bin<A, B, 3>(r, op);
    default: return bin<A, B, 4>(r, op);
    }
}
template<int A>
std::string bin_bd(regs_t& r, std::string const& op, int b, int d)
{
    switch (b) {
    case 1: return bin_d<A, 1>(r, op, d);
    case 2: return bin_d<A, 2>(r, op, d);
    case 3: return bin_d<A, 3>(r, op, d);
    default: return bin_d<A, 4>(r, op, d);
    }
}
std::string bin_abd(regs_t& r, std::string const& op, int a, int b, int d)
{
    switch (a) {
    case 1: return bin_bd<1>(r, op, b, d);
    case 2: return bin_bd<2>(r, op, b, d);
    case 3: return bin_bd<3>(r, op, b, d);
    default: return bin_bd<4>(r, op, b, d);
    }
}

// compound assignment d op= a
template<int A, int D>
std::string cas(regs_t& r, std::string const& op)
{
    auto& a = reg<A>(r);
    auto& d = reg<D>(r);
    return guarded([&] {
        if (op == "add") {
            d += a;
        } else if (op == "sub") {
            d -= a;
        } else if (op == "mul") {
            d *= a;
        } else if (op == "mod") {
            d %= a;
        } else {
            d /= a;
        }
    });
}
template<int A>
std::string cas_d(regs_t& r, std::string const& op, int d)
{
    switch (d) {
    case 1: return cas<A, 1>(r, op);
    case 2: return cas<A, 2>(r, op);
    case 3: return cas<A, 3>(r, op);
    default: return cas<A, 4>(r, op);
    }
}
std::string cas_ad(regs_t& r, std::string const& op, int a, int d)
{
    switch (a) {
    case 1: return cas_d<1>(r, op, d);
    case 2: return cas_d<2>(r, op, d);
    case 3: return cas_d<3>(r, op, d);
    default: return cas_d<4>(r, op, d);
    }
}

// d := -a
template<int A, int D>
std::string neg(regs_t& r)
{
    auto& a = reg<A>(r);
    auto& d = reg<D>(r);
    using TD = std::remove_reference_t<decltype(d)>;
    return guarded([&] { d = static_cast<TD>(-a); });
}
template<int A>
std::string neg_d(regs_t& r, int d)
{
    switch (d) {
    case 1: return neg<A, 1>(r);
    case 2: return neg<A, 2>(r);
    case 3: return neg<A, 3>(r);
    default: return neg<A, 4>(r);
    }
}
std::string neg_ad(regs_t& r, int a, int d)
{
    switch (a) {
    case 1: return neg_d<1>(r, d);
    case 2: return neg_d<2>(r, d);
    case 3: return neg_d<3>(r, d);
    default: return neg_d<4>(r, d);
    }
}

// d := a two-operator expression of a and b: the elastic intermediate is never converted to a declared type
template<int A, int B, int D>
std::string expr(regs_t& r, std::string const& op)
{
    auto& a = reg<A>(r);
    auto& b = reg<B>(r);
    auto& d = reg<D>(r);
    using TD = std::remove_reference_t<decltype(d)>;
    return guarded([&] {
        if (op == "neg_add") {
            d = static_cast<TD>(-(a + b));
        } else if (op == "neg_sub") {
            d = static_cast<TD>(-(a - b));
        } else if (op == "neg_mul") {
            d = static_cast<TD>(-(a * b));
        } else if (op == "mul_add") {
            d = static_cast<TD>((a * b) + a);
        } else if (op == "mul_sub") {
            d = static_cast<TD>((a * b) - a);
        } else if (op == "add_mul") {
            d = static_cast<TD>((a + b) * a);
        } else {
            d = static_cast<TD>((a - b) * b);
        }
    });
}
template<int A, int B>
std::string expr_d(regs_t& r, std::string const& op, int d)
{
    switch (d) {
    case 1: return expr<A, B, 1>(r, op);
    case 2: return expr<A, B, 2>(r, op);
    case 3: return expr<A, B, 3>(r, op);
    default: return expr<A, B, 4>(r, op);
    }
}
template<int A>
std::string expr_bd(regs_t& r, std::string const& op, int b, int d)
{
    switch (b) {
    case 1: return expr_d<A, 1>(r, op, d);
    case 2: return expr_d<A, 2>(r, op, d);
    case 3: return expr_d<A, 3>(r, op, d);
    default: return expr_d<A, 4>(r, op, d);
    }
}
std::string expr_abd(regs_t& r, std::string const& op, int a, int b, int d)
{
    switch (a) {
    case 1: return expr_bd<1>(r, op, b, d);
    case 2: return expr_bd<2>(r, op, b, d);
    case 3: return expr_bd<3>(r, op, b, d);
    default: return expr_bd<4>(r, op, b, d);
    }
}

// d := a  (plain assignment: the conversion between two register types on its own)
template<int A, int D>
std::string mov(regs_t& r)
{
    auto& a = reg<A>(r);
    auto& d = reg<D>(r);
    using TD = std::remove_reference_t<decltype(d)>;
    return guarded([&] { d = static_cast<TD>(a); });
}
template<int A>
std::string mov_d(regs_t& r, int d)
{
    switch (d) {
    case 1: return mov<A, 1>(r);
    case 2: return mov<A, 2>(r);
    case 3: return mov<A, 3>(r);
    default: return mov<A, 4>(r);
    }
}
std::string mov_ad(regs_t& r, int a, int d)
{
    switch (a) {
    case 1: return mov_d<1>(r, d);
    case 2: return mov_d<2>(r, d);
    case 3: return mov_d<3>(r, d);
    default: return mov_d<4>(r, d);
    }
}

// the six comparisons, as a bit mask (< 1, <= 2, > 4, >= 8, == 16, != 32)
template<int A, int B>
std::string cmp(regs_t& r, int& mask)
{
    auto& a = reg<A>(r);
    auto& b = reg<B>(r);
    return guarded([&] {
        mask = (a < b) * 1 + (a <= b) * 2 + (a > b) * 4 + (a >= b) * 8 + (a == b) * 16 + (a != b) * 32;
    });
}
template<int A>
std::string cmp_b(regs_t& r, int b, int& mask)
{
    switch (b) {
    case 1: return cmp<A, 1>(r, mask);
    case 2: return cmp<A, 2>(r, mask);
    case 3: return cmp<A, 3>(r, mask);
    default: return cmp<A, 4>(r, mask);
    }
}
std::string cmp_ab(regs_t& r, int a, int b, int& mask)
{
    switch (a) {
    case 1: return cmp_b<1>(r, b, mask);
    case 2: return cmp_b<2>(r, b, mask);
    case 3: return cmp_b<3>(r, b, mask);
    default: return cmp_b<4>(r, b, mask);
    }
}

template<class T>
constexpr int texp()
{
    if constexpr (requires { cnl::_impl::tag_of_t<T>::exponent; }) {
        return cnl::_impl::tag_of_t<T>::exponent;
    } else {
        return 0;
    }
}

// ++d, d++, --d, d--
template<int D>
std::string incdec(regs_t& r, std::string const& op)
{
    auto& d = reg<D>(r);
    using TD = std::remove_reference_t<decltype(d)>;
    if constexpr (texp<TD>() > 0) {
        return "n/a";      // the library has no ++/-- for a scale coarser than one (power_value of a negative exponent)
    } else
    return guarded([&] {
        if (op == "preinc") {
            ++d;
        } else if (op == "postinc") {
            d++;
        } else if (op == "predec") {
            --d;
        } else {
            d--;
        }
    });
}

// construction from a built-in integer (values on both sides of every register type's range)
inline long long int_table(int vi)
{
    static long long const t[] = {0, 1, -1, 2, 3, -3, 7, -8, 15, 16, 100, -100, 127, -128, 1000, -1023, 1024, 65535, -65536,
                                  1000000, 2147483647LL, -2147483647LL - 1, 1LL << 40, -(1LL << 40), (1LL << 62) + 12345, -((1LL << 62) + 54321),
                                  9223372036854775807LL, -9223372036854775807LL - 1};
    return t[static_cast<std::size_t>(vi) % (sizeof(t) / sizeof(t[0]))];
}
template<int K>
std::string from_int(regs_t& r, long long v)
{
    using T = std::remove_reference_t<decltype(reg<K>(r))>;
    return guarded([&] { reg<K>(r) = static_cast<T>(v); });
}
// construction from a double (halves, quarters, values next to ties and on both sides of the register ranges)
inline double flt_table(int vi)
{
    static double const t[] = {0.0, 0.5, -0.5, 1.5, -1.5, 2.5, -2.5, 0.25, -0.25, 0.75, -0.75, 31.5, -31.5, 100.3, -100.7, 1000000.5, 0.001, -0.001,
                               1048576.5, 255.9375, -255.9375, 65535.5, 1e12, -1e12, 3.999, 0.49999999999999994, 8388609.0, -0.03125, 0.046875,
                               127.5, -128.5, 4294967295.5, 1e-9, -7.0, 12345.678,
                               // odd integers that need all 53 bits (x + 0.5 is not a double), exactly representable large values
                               4503599627370497.0, -4503599627370497.0, 9007199254740991.0, 6755399441055745.0, 2097152.25, 16777217.0};
    return t[static_cast<std::size_t>(vi) % (sizeof(t) / sizeof(t[0]))];
}
template<int K>
std::string from_double(regs_t& r, double v)
{
    using T = std::remove_reference_t<decltype(reg<K>(r))>;
    return guarded([&] { reg<K>(r) = static_cast<T>(v); });
}
template<int K>
std::string to_double(regs_t& r, double& d)
{
    return guarded([&] { d = static_cast<double>(reg<K>(r)); });
}

std::string raw_of(regs_t& r, int k)
{
    switch (k) {
    case 1: return raw(r.r1);
    case 2: return raw(r.r2);
    case 3: return raw(r.r3);
    default: return raw(r.r4);
    }
}

// minimal parser for the program lines written by GenPrograms (flat objects with string / integer fields)
static std::string field_s(std::string const& o, char const* k)
{
    auto p = o.find(std::string("\"") + k + "\":\"");
    if (p == std::string::npos) return "";
    p += std::strlen(k) + 4;
    return o.substr(p, o.find('"', p) - p);
}
static int field_i(std::string const& o, char const* k)
{
    auto p = o.find(std::string("\"") + k + "\":");
    if (p == std::string::npos) return -1;
    return std::atoi(o.c_str() + p + std::strlen(k) + 3);
}

int main(int argc, char** argv)
{
    if (argc < 2) {
        return 64;
    }
    install();
    sink out(argv[1], std::string("\"cc\":\"") + VERIF_CC + "\"");
    char const* pp = std::getenv("VERIF_PROGRAMS");
    if (!pp) {
        std::fprintf(stderr, "VERIF_PROGRAMS not set\n");
        return 72;
    }
    std::ifstream in(pp);
    int id = add_inst(out, ev("Inst").str("kind", "StStep").str("op", "step").str("menu", MENU_NAME)
                                   .raw("lt", "[" + desc<T1>() + "," + desc<T2>() + "," + desc<T3>() + "," + desc<T4>() + "]")
                                   .raw("rt", desc<int>()).raw("res_t", desc<int>()));
    std::string line;
    long prog = 0;
    while (std::getline(in, line)) {
        ++prog;
        regs_t r;
        out.put(ev("StReset").num("i", id).num("prog", prog).s);
        std::size_t pos = 0;
        int k = 0;
        while ((pos = line.find('{', pos)) != std::string::npos) {
            auto end = line.find('}', pos);
            std::string o = line.substr(pos, end - pos + 1);
            pos = end + 1;
            ++k;
            if (field_s(o, "k") == "load") {
                int rr = field_i(o, "r");
                int vi = field_i(o, "vi");
                std::string v = rr == 1 ? load<1>(r, vi) : rr == 2 ? load<2>(r, vi) : rr == 3 ? load<3>(r, vi) : load<4>(r, vi);
                out.put(ev("StLoad").num("i", id).num("prog", prog).num("k", k).num("r", rr).raw("v", v).s);
            } else if (field_s(o, "k") == "cmp") {
                int a = field_i(o, "a"), b = field_i(o, "b");
                int mask = 0;
                std::string va = raw_of(r, a), vb = raw_of(r, b);
                std::string o2 = cmp_ab(r, a, b, mask);
                out.put(ev("StCmp").num("i", id).num("prog", prog).num("k", k).num("a", a).num("b", b).raw("va", va).raw("vb", vb).num("mask", mask)
                                .raw("all", "[" + raw_of(r, 1) + "," + raw_of(r, 2) + "," + raw_of(r, 3) + "," + raw_of(r, 4) + "]").str("out", o2).s);
            } else if (field_s(o, "k") == "toflt") {
                int a = field_i(o, "a");
                double dv = 0;
                std::string va = raw_of(r, a);
                std::string o2 = a == 1 ? to_double<1>(r, dv) : a == 2 ? to_double<2>(r, dv) : a == 3 ? to_double<3>(r, dv) : to_double<4>(r, dv);
                out.put(ev("StToFlt").num("i", id).num("prog", prog).num("k", k).num("a", a).raw("va", va).raw("res", enc_float(dv))
                                .raw("all", "[" + raw_of(r, 1) + "," + raw_of(r, 2) + "," + raw_of(r, 3) + "," + raw_of(r, 4) + "]").str("out", o2).s);
            } else if (field_s(o, "k") == "fromint") {
                int rr = field_i(o, "r");
                long long v = int_table(field_i(o, "vi"));
                std::string before = raw_of(r, rr);
                std::string o2 = rr == 1 ? from_int<1>(r, v) : rr == 2 ? from_int<2>(r, v) : rr == 3 ? from_int<3>(r, v) : from_int<4>(r, v);
                out.put(ev("StFromInt").num("i", id).num("prog", prog).num("k", k).num("d", rr).raw("v", enc(v)).raw("before", before).raw("after", raw_of(r, rr))
                                .raw("all", "[" + raw_of(r, 1) + "," + raw_of(r, 2) + "," + raw_of(r, 3) + "," + raw_of(r, 4) + "]").str("out", o2).s);
            } else if (field_s(o, "k") == "fromflt") {
                int rr = field_i(o, "r");
                double v = flt_table(field_i(o, "vi"));
                std::string before = raw_of(r, rr);
                std::string o2 = rr == 1 ? from_double<1>(r, v) : rr == 2 ? from_double<2>(r, v) : rr == 3 ? from_double<3>(r, v) : from_double<4>(r, v);
                out.put(ev("StFromFlt").num("i", id).num("prog", prog).num("k", k).num("d", rr).raw("x", enc_float(v)).raw("before", before).raw("after", raw_of(r, rr))
                                .raw("all", "[" + raw_of(r, 1) + "," + raw_of(r, 2) + "," + raw_of(r, 3) + "," + raw_of(r, 4) + "]").str("out", o2).s);
            } else if (field_s(o, "k") == "incdec") {
                std::string op = field_s(o, "op");
                int d = field_i(o, "d");
                std::string before = raw_of(r, d);
                std::string o2 = d == 1 ? incdec<1>(r, op) : d == 2 ? incdec<2>(r, op) : d == 3 ? incdec<3>(r, op) : incdec<4>(r, op);
                if (o2 == "n/a") {
                    continue;
                }
                out.put(ev("StIncDec").num("i", id).num("prog", prog).num("k", k).str("op", op).num("d", d).raw("before", before).raw("after", raw_of(r, d))
                                .raw("all", "[" + raw_of(r, 1) + "," + raw_of(r, 2) + "," + raw_of(r, 3) + "," + raw_of(r, 4) + "]").str("out", o2).s);
            } else if (field_s(o, "k") == "expr") {
                std::string op = field_s(o, "op");
                int a = field_i(o, "a"), b = field_i(o, "b"), d = field_i(o, "d");
                std::string va = raw_of(r, a), vb = raw_of(r, b), before = raw_of(r, d);
                std::string o2 = expr_abd(r, op, a, b, d);
                out.put(ev("StStep").num("i", id).num("prog", prog).num("k", k).str("op", op).str("form", "expression").num("a", a).num("b", b).num("d", d)
                                .raw("va", va).raw("vb", vb).raw("before", before).raw("after", raw_of(r, d))
                                .raw("all", "[" + raw_of(r, 1) + "," + raw_of(r, 2) + "," + raw_of(r, 3) + "," + raw_of(r, 4) + "]").str("out", o2).s);
            } else if (field_s(o, "k") == "mov") {
                int a = field_i(o, "a"), d = field_i(o, "d");
                std::string va = raw_of(r, a), before = raw_of(r, d);
                std::string o2 = mov_ad(r, a, d);
                out.put(ev("StStep").num("i", id).num("prog", prog).num("k", k).str("op", "mov").str("form", "unary").num("a", a).num("b", a).num("d", d)
                                .raw("va", va).raw("vb", va).raw("before", before).raw("after", raw_of(r, d))
                                .raw("all", "[" + raw_of(r, 1) + "," + raw_of(r, 2) + "," + raw_of(r, 3) + "," + raw_of(r, 4) + "]").str("out", o2).s);
            } else if (field_s(o, "k") == "neg") {
                int a = field_i(o, "a"), d = field_i(o, "d");
                std::string va = raw_of(r, a), before = raw_of(r, d);
                std::string o2 = neg_ad(r, a, d);
                out.put(ev("StStep").num("i", id).num("prog", prog).num("k", k).str("op", "neg").str("form", "unary").num("a", a).num("b", a).num("d", d)
                                .raw("va", va).raw("vb", va).raw("before", before).raw("after", raw_of(r, d))
                                .raw("all", "[" + raw_of(r, 1) + "," + raw_of(r, 2) + "," + raw_of(r, 3) + "," + raw_of(r, 4) + "]").str("out", o2).s);
            } else if (field_s(o, "k") == "cas") {
                // d op= a is judged as d := d op a
                std::string op = field_s(o, "op");
                int a = field_i(o, "a"), d = field_i(o, "d");
                std::string va = raw_of(r, a), before = raw_of(r, d);
                if ((op == "div" || op == "mod") && va == "[0]") {
                    continue;
                }
                std::string o2 = cas_ad(r, op, a, d);
                out.put(ev("StStep").num("i", id).num("prog", prog).num("k", k).str("op", op).str("form", "compound").num("a", d).num("b", a).num("d", d)
                                .raw("va", before).raw("vb", va).raw("before", before).raw("after", raw_of(r, d))
                                .raw("all", "[" + raw_of(r, 1) + "," + raw_of(r, 2) + "," + raw_of(r, 3) + "," + raw_of(r, 4) + "]").str("out", o2).s);
            } else {
                std::string op = field_s(o, "op");
                int a = field_i(o, "a"), b = field_i(o, "b"), d = field_i(o, "d");
                std::string va = raw_of(r, a), vb = raw_of(r, b), before = raw_of(r, d);
                if ((op == "div" || op == "mod") && vb == "[0]") {
                    continue;      // zero divisors are outside the domain
                }
                std::string o2 = bin_abd(r, op, a, b, d);
                out.put(ev("StStep").num("i", id).num("prog", prog).num("k", k).str("op", op).str("form", "binary").num("a", a).num("b", b).num("d", d)
                                .raw("va", va).raw("vb", vb).raw("before", before).raw("after", raw_of(r, d))
                                .raw("all", "[" + raw_of(r, 1) + "," + raw_of(r, 2) + "," + raw_of(r, 3) + "," + raw_of(r, 4) + "]").str("out", o2).s);
            }
        }
    }
    std::fprintf(stderr, "events=%llu insts=%d\n", out.n, out.ninst);
    return 0;
}
