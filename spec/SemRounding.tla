----------------------------- MODULE SemRounding -----------------------------
(* Ideal semantics of division and narrowing conversion under a rounding tag
   (C08, C09): the exact rational a/b rounded as the mode prescribes.  *)
EXTENDS CnlTypes

\* a / b (b # 0) rounded to an integer
RoundQ(a0, b0, mode) ==
    LET a == IF b0.n THEN Neg(a0) ELSE a0          \* normalise: divisor positive
        b == Abs(b0)
    IN CASE mode = "nearest" ->            \* ties away from zero
              (IF a.n THEN Neg(FloorDiv(Add(MulSmall(Abs(a), 2), b), MulSmall(b, 2)))
               ELSE FloorDiv(Add(MulSmall(a, 2), b), MulSmall(b, 2)))
         [] mode = "tie_to_pos_inf" -> FloorDiv(Add(MulSmall(a, 2), b), MulSmall(b, 2))
         [] mode = "neg_inf" -> FloorDiv(a, b)
         [] mode = "native" -> TruncDiv(a, b)
IsTie(a, b) == LET r2 == MulSmall(Abs(TruncRem(a, b)), 2) IN r2 = Abs(b)

RUb(out) == out \in {"ub:SIGILL", "ub:SIGFPE", "ub:SIGSEGV", "ub:SIGBUS", "ub:signal"}
RDiag(out, got, want) == IF RUb(out) THEN "ub" ELSE IF out = "timeout" THEN "timeout"
                         ELSE IF out # "ok" THEN "unexpected_signal" ELSE IF got = want THEN "ok" ELSE "wrong_value"

\* rounding division on built-in operand types i.lt, i.rt under i.tag
JudgeRDiv(e, i) ==
    LET a == J(e.l)  b == J(e.r)
        lt == AsIntT(i.lt)  rt == AsIntT(i.rt)
        u == UAC(lt, rt)
        cls == <<"RDiv", i.tag, SgnChar(lt) \o SgnChar(rt), (IF a.n # b.n THEN "neg" ELSE "pos"),
                 (IF IsZero(b) THEN "-" ELSE IF IsTie(a, b) THEN "tie" ELSE "nontie")>>
    IN
    IF IsZero(b) \/ ~InT(a, lt) \/ ~InT(b, rt) THEN [d |-> "skip", nt |-> FALSE, cls |-> cls]
    ELSE IF i.res_t.w # u.w \/ i.res_t.s # u.s THEN [d |-> "wrong_type", nt |-> TRUE, cls |-> cls]
    \* mixed signedness: judged only where the usual conversions do not change the operand values
    ELSE IF ~InT(a, u) \/ ~InT(b, u) THEN [d |-> "skip", nt |-> FALSE, cls |-> cls]
    ELSE LET qq == RoundQ(a, b, i.tag)
         IN IF ~InT(qq, u) THEN [d |-> "skip", nt |-> FALSE, cls |-> cls]
            ELSE [d |-> RDiag(e.out, J(e.res), qq), nt |-> ~IsZero(TruncRem(a, b)), cls |-> cls]

\* every other operator under a rounding tag is the built-in one
JudgeROp(e, i) ==
    LET a == J(e.l)  b == J(e.r)
        lt == AsIntT(i.lt)  rt == AsIntT(i.rt)
        v == CBin(i.op, TV(lt, a), TV(rt, b))
        cls == <<"ROp", i.tag, i.op, SgnChar(lt) \o SgnChar(rt)>>
    IN IF v.ub THEN [d |-> "skip", nt |-> FALSE, cls |-> cls]
       ELSE IF i.res_t.w # v.t.w \/ i.res_t.s # v.t.s THEN [d |-> "wrong_type", nt |-> TRUE, cls |-> cls]
       ELSE [d |-> RDiag(e.out, J(e.res), v.v), nt |-> TRUE, cls |-> cls]

\* narrowing conversion under a rounding tag: source float (radix 2 destinations) or scaled/int
JudgeRConv(e, i) ==
    LET st == i.lt  dt == i.rt  ed == ExpOf(dt)
        rdx == IF RadixOf(dt) # 0 THEN RadixOf(dt) ELSE IF st.k # "float" /\ RadixOf(st) # 0 THEN RadixOf(st) ELSE 2
    IN
    IF st.k = "float" THEN
        LET f == e.l
            cls0 == <<"RConv", i.tag, "float", dt.k, IF f.n = 1 THEN "neg" ELSE "pos">>
        IN IF f.c # "fin" \/ rdx # 2 THEN [d |-> "skip", nt |-> FALSE, cls |-> cls0]
           ELSE LET m == IF f.n = 1 THEN Neg(FMag(f)) ELSE FMag(f)
                    sh == f.e - ed
                    \* |x| below a quarter of a destination unit: decided without big-number arithmetic
                    tiny == sh < 0 /\ -sh > BitLen(m) + 1
                    qq == IF tiny THEN (IF i.tag = "neg_inf" /\ f.n = 1 /\ ~IsZero(m) THEN FromInt(-1) ELSE Zero)
                          ELSE IF sh >= 0 THEN Shl(m, sh) ELSE RoundQ(m, Pow2(-sh), i.tag)
                    tie == ~tiny /\ sh < 0 /\ IsTie(m, Pow2(-sh))
                    \* is x +/- half a destination unit exactly representable in the source format?
                    \* (the code adds the bias in floating point before truncating)
                    lowe == MinI(f.e, ed - 1)
                    hm == Pow2((ed - 1) - lowe)
                    xm == Shl(m, f.e - lowe)
                    sum == IF i.tag = "nearest" /\ f.n = 1 THEN Sub(xm, hm) ELSE Add(xm, hm)
                    biasRounds == i.tag \in {"nearest", "tie_to_pos_inf"}
                                  /\ (IF tiny THEN ~IsZero(m) ELSE BitLen(NormDyadic(Abs(sum), 0)[1]) > st.p)
                    cls == cls0 \o <<IF tie THEN "tie" ELSE "nontie", IF biasRounds THEN "bias_rounds" ELSE "bias_exact", "r2">>
                IN IF sh > 300 \/ ~InRaw(qq, dt) THEN [d |-> "skip", nt |-> FALSE, cls |-> cls0]
                   ELSE [d |-> RDiag(e.out, J(e.res), qq), nt |-> sh < 0 /\ ~tiny, cls |-> cls]
    ELSE
        LET a == J(e.l)  es == ExpOf(st)
            cls0 == <<"RConv", i.tag, st.k, dt.k, IF a.n THEN "neg" ELSE "pos">>
        IN IF (RadixOf(st) # 0 /\ RadixOf(dt) # 0 /\ RadixOf(st) # RadixOf(dt)) \/ ~InRaw(a, st)
           THEN [d |-> "skip", nt |-> FALSE, cls |-> cls0]
           ELSE LET sh == es - ed
                    qq == IF sh >= 0 THEN Mul(a, PowSmall(rdx, sh)) ELSE RoundQ(a, PowSmall(rdx, -sh), i.tag)
                    tie == sh < 0 /\ IsTie(a, PowSmall(rdx, -sh))
                    \* does a +/- half a destination unit still fit the source representation?
                    half == IF sh < 0 THEN TruncDiv(PowSmall(rdx, -sh), FromInt(2)) ELSE Zero
                    biased == IF i.tag = "nearest" /\ a.n THEN Sub(a, half) ELSE Add(a, half)
                    biasOv == i.tag \in {"nearest", "tie_to_pos_inf"} /\ sh < 0 /\ ~InRaw(biased, st)
                    cls == cls0 \o <<IF tie THEN "tie" ELSE "nontie", IF biasOv THEN "bias_overflows" ELSE "bias_fits",
                                     IF rdx = 2 THEN "r2" ELSE "r10">>
                IN IF ~InRaw(qq, dt) THEN [d |-> "skip", nt |-> FALSE, cls |-> cls]
                   ELSE [d |-> RDiag(e.out, J(e.res), qq), nt |-> sh < 0, cls |-> cls]
=============================================================================
