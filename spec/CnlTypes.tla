------------------------------ MODULE CnlTypes ------------------------------
(* Type descriptors of cnl number types and the type-level facts the
   semantics needs.  A descriptor is the nested record written by the recorder
   (harness/describe.hpp) from what the implementation itself deduced:
     [k |-> "int", w, s]                       built-in integer
     [k |-> "multi", w, s, limb]               multi-limb integer (uintwide_t)
     [k |-> "float", p]                        binary floating point, p significand bits
     [k |-> "scaled", e, r, rep]               scaled_integer<rep, power<e, r>>
     [k |-> "elastic", d, narrowest, rep]      elastic_integer<d, narrowest>
     [k |-> "wide", d, narrowest, rep]         wide_integer<d, narrowest>
     [k |-> "overflow" | "rounding", tag, rep]
   A value of such a type is its innermost integer representation `raw`; it
   denotes the real number raw * r^e  (C01). *)
EXTENDS CxxInt

IsLeaf(d) == d.k \in {"int", "multi", "float"}

RECURSIVE InnerT(_)
InnerT(d) == IF IsLeaf(d) THEN d ELSE InnerT(d.rep)
RECURSIVE ExpOf(_)
ExpOf(d) == IF IsLeaf(d) THEN 0 ELSE IF d.k = "scaled" THEN d.e + ExpOf(d.rep) ELSE ExpOf(d.rep)
RECURSIVE RadixOf(_)      \* 0 = no scaled layer (a plain integer: any radix)
RadixOf(d) == IF IsLeaf(d) THEN 0 ELSE IF d.k = "scaled" THEN d.r ELSE RadixOf(d.rep)
\* the representation type under the outermost scaled layer (the type itself if there is none)
RepOf(d) == IF d.k = "scaled" THEN d.rep ELSE d
IsBuiltin(d) == d.k = "int"
AsIntT(d) == IntT(d.w, d.s)

\* range of the raw value that numeric_limits of the type must report
RECURSIVE RawMin(_)
RECURSIVE RawMax(_)
RawMax(d) == CASE d.k \in {"int", "multi"} -> MaxOf(d.w, d.s = 1)
               [] d.k = "elastic" -> Sub(Pow2(d.d), One)                       \* symmetric elastic range
               [] OTHER -> RawMax(d.rep)
RawMin(d) == CASE d.k \in {"int", "multi"} -> MinOf(d.w, d.s = 1)
               [] d.k = "elastic" -> IF d.sg = 1 THEN Neg(Sub(Pow2(d.d), One)) ELSE Zero
               [] OTHER -> RawMin(d.rep)
InRaw(x, d) == Le(RawMin(d), x) /\ Le(x, RawMax(d))

\* any rounding layer other than native?  any checked overflow layer?
RECURSIVE RoundingOf(_)
RoundingOf(d) == IF IsLeaf(d) THEN "native" ELSE IF d.k = "rounding" THEN d.tag ELSE RoundingOf(d.rep)
RECURSIVE OverflowOf(_)
OverflowOf(d) == IF IsLeaf(d) THEN "native" ELSE IF d.k = "overflow" THEN d.tag ELSE OverflowOf(d.rep)
RECURSIVE HasKind(_, _)
HasKind(d, k) == IF d.k = k THEN TRUE ELSE IF IsLeaf(d) THEN FALSE ELSE HasKind(d.rep, k)

SgnChar(t) == IF t.s = 1 THEN "s" ELSE "u"
MinI(a, b) == IF a < b THEN a ELSE b
MaxI2(a, b) == IF a > b THEN a ELSE b

\* floating point values as logged: [c |-> "fin"/"inf"/"nan", n, e, m]  = (-1)^n * J(m) * 2^e, m odd or zero
FMag(f) == J(f.m)
RECURSIVE TrailingZeros(_)
TrailingZeros(x) == IF IsZero(x) \/ BitM(x.m, 0) = 1 THEN 0 ELSE 1 + TrailingZeros(ShrTrunc(x, 1))
\* normal form <<odd mantissa, exponent>> of m * 2^e
NormDyadic(m, e) == IF IsZero(m) THEN <<Zero, 0>> ELSE LET tz == TrailingZeros(m) IN <<ShrTrunc(m, tz), e + tz>>
\* round-to-nearest-even of the non-negative integer mag * 2^e to p significand bits: <<mantissa, exponent>> normalised
RNE(mag, e, p) ==
    LET bl == BitLen(mag) IN
    IF bl <= p THEN NormDyadic(mag, e)
    ELSE LET sh == bl - p
             qq == ShrTrunc(mag, sh)
             rem == ModPow2(mag, sh)
             half == Pow2(sh - 1)
             up == Gt(rem, half) \/ (rem = half /\ BitM(qq.m, 0) = 1)
         IN NormDyadic(IF up THEN Add(qq, One) ELSE qq, e + sh)
\* the two p-bit neighbours of mag * 2^e (toward zero, away from zero); equal when mag fits p bits
RTowardZero(mag, e, p) ==
    LET bl == BitLen(mag) IN IF bl <= p THEN NormDyadic(mag, e) ELSE NormDyadic(ShrTrunc(mag, bl - p), e + (bl - p))
RAwayFromZero(mag, e, p) ==
    LET bl == BitLen(mag) IN
    IF bl <= p THEN NormDyadic(mag, e)
    ELSE LET sh == bl - p  qq == ShrTrunc(mag, sh)
         IN NormDyadic(IF ModPow2(mag, sh) = Zero THEN qq ELSE Add(qq, One), e + sh)
\* faithful rounding: one of the two neighbours (C++ leaves the choice to the implementation for integer -> floating)
IsFaithful(r, mag, e, p) == r = RTowardZero(mag, e, p) \/ r = RAwayFromZero(mag, e, p)
FloatEmax(p) == CASE p = 24 -> 128 [] p = 53 -> 1024 [] OTHER -> 16384
FloatEminNormal(p) == CASE p = 24 -> -126 [] p = 53 -> -1022 [] OTHER -> -16382
=============================================================================
