------------------------------- MODULE BigInt -------------------------------
(* Arbitrary-precision integers for TLC.  TLC's built-in Int is 32-bit and a
   run *aborts* on overflow, so every value the C++ side can hold (up to 2048
   bit wide_integers) is handled here.  A value is a record
        [n |-> BOOLEAN, m |-> Seq(0..B-1)]
   little-endian magnitude in base B = 2^15, canonical: no high zero limbs and
   zero is [n |-> FALSE, m |-> <<>>]; canonical form makes TLA+ equality (=) the
   mathematical equality. *)
EXTENDS Integers, Sequences, Bitwise

B == 32768
LB == 15

RECURSIVE TrimM(_)
TrimM(m) == IF m = <<>> THEN m
            ELSE IF m[Len(m)] = 0 THEN TrimM(SubSeq(m, 1, Len(m) - 1)) ELSE m

Mk(n, m) == LET t == TrimM(m) IN [n |-> (n /\ t # <<>>), m |-> t]
Zero == [n |-> FALSE, m |-> <<>>]

RECURSIVE NatM(_)
NatM(x) == IF x = 0 THEN <<>> ELSE <<x % B>> \o NatM(x \div B)
\* small TLC integer (|x| < 2^31) to BigInt
FromInt(x) == IF x < 0 THEN Mk(TRUE, NatM(-x)) ELSE Mk(FALSE, NatM(x))
One == FromInt(1)
\* JSON encoding used by the recorder: <<sign, limb0, limb1, ...>>
J(v) == Mk(v[1] = 1, SubSeq(v, 2, Len(v)))
\* BigInt to a TLC integer; only for values known to be < 2^30 in magnitude
ToInt(x) == LET mag == (IF Len(x.m) >= 1 THEN x.m[1] ELSE 0) + (IF Len(x.m) >= 2 THEN x.m[2] * B ELSE 0)
            IN IF x.n THEN -mag ELSE mag
IsSmall(x) == Len(x.m) <= 2

RECURSIVE CmpMAt(_, _, _)
CmpMAt(a, b, i) == IF i = 0 THEN 0
                   ELSE IF a[i] < b[i] THEN -1 ELSE IF a[i] > b[i] THEN 1 ELSE CmpMAt(a, b, i - 1)
CmpM(a, b) == IF Len(a) < Len(b) THEN -1 ELSE IF Len(a) > Len(b) THEN 1 ELSE CmpMAt(a, b, Len(a))

RECURSIVE AddMAt(_, _, _, _)
AddMAt(a, b, i, c) ==
    IF i > Len(a) /\ i > Len(b) THEN (IF c = 0 THEN <<>> ELSE <<c>>)
    ELSE LET x == (IF i <= Len(a) THEN a[i] ELSE 0) + (IF i <= Len(b) THEN b[i] ELSE 0) + c
         IN <<x % B>> \o AddMAt(a, b, i + 1, x \div B)
AddM(a, b) == AddMAt(a, b, 1, 0)

\* requires a >= b
RECURSIVE SubMAt(_, _, _, _)
SubMAt(a, b, i, br) ==
    IF i > Len(a) THEN <<>>
    ELSE LET x == a[i] - (IF i <= Len(b) THEN b[i] ELSE 0) - br
         IN IF x < 0 THEN <<x + B>> \o SubMAt(a, b, i + 1, 1) ELSE <<x>> \o SubMAt(a, b, i + 1, 0)
SubM(a, b) == TrimM(SubMAt(a, b, 1, 0))

Neg(a) == Mk(~a.n, a.m)
Abs(a) == Mk(FALSE, a.m)
Add(a, b) == IF a.n = b.n THEN Mk(a.n, AddM(a.m, b.m))
             ELSE LET c == CmpM(a.m, b.m)
                  IN IF c = 0 THEN Zero
                     ELSE IF c > 0 THEN Mk(a.n, SubM(a.m, b.m)) ELSE Mk(b.n, SubM(b.m, a.m))
Sub(a, b) == Add(a, Neg(b))
Cmp(a, b) == IF a.n /\ ~b.n THEN -1 ELSE IF ~a.n /\ b.n THEN 1
             ELSE IF a.n THEN CmpM(b.m, a.m) ELSE CmpM(a.m, b.m)
Lt(a, b) == Cmp(a, b) < 0
Le(a, b) == Cmp(a, b) <= 0
Gt(a, b) == Cmp(a, b) > 0
Ge(a, b) == Cmp(a, b) >= 0
Sign(a) == IF a.m = <<>> THEN 0 ELSE IF a.n THEN -1 ELSE 1
IsZero(a) == a.m = <<>>
Max(a, b) == IF Lt(a, b) THEN b ELSE a
Min(a, b) == IF Lt(a, b) THEN a ELSE b

\* magnitude * small k (0 <= k <= B)
RECURSIVE MulSmallMAt(_, _, _, _)
MulSmallMAt(a, k, i, c) ==
    IF i > Len(a) THEN (IF c = 0 THEN <<>> ELSE <<c>>)
    ELSE LET x == a[i] * k + c IN <<x % B>> \o MulSmallMAt(a, k, i + 1, x \div B)
MulSmallM(a, k) == IF k = 0 THEN <<>> ELSE MulSmallMAt(a, k, 1, 0)
MulSmall(a, k) == IF k < 0 THEN Mk(~a.n, MulSmallM(a.m, -k)) ELSE Mk(a.n, MulSmallM(a.m, k))

RECURSIVE ZerosM(_)
ZerosM(n) == IF n = 0 THEN <<>> ELSE <<0>> \o ZerosM(n - 1)

RECURSIVE MulMAt(_, _, _)
MulMAt(a, b, j) == IF j > Len(b) THEN <<>>
                   ELSE AddM(ZerosM(j - 1) \o MulSmallM(a, b[j]), MulMAt(a, b, j + 1))
MulM(a, b) == IF a = <<>> \/ b = <<>> THEN <<>> ELSE TrimM(MulMAt(a, b, 1))
Mul(a, b) == Mk(a.n # b.n, MulM(a.m, b.m))

\* a * 2^k, k >= 0
ShlM(a, k) == IF a = <<>> THEN a ELSE ZerosM(k \div LB) \o MulSmallMAt(a, 2^(k % LB), 1, 0)
Shl(a, k) == Mk(a.n, ShlM(a.m, k))
Pow2(k) == Shl(One, k)

\* radix^k for a small radix (2..B), k >= 0
RECURSIVE PowSmall(_, _)
PowSmall(r, k) == IF k = 0 THEN One ELSE IF r = 2 THEN Pow2(k) ELSE MulSmall(PowSmall(r, k - 1), r)

\* magnitude divided by small d (0 < d <= B): <<quotient, remainder>>
RECURSIVE DivSmallMAt(_, _, _, _)
DivSmallMAt(a, d, i, r) ==
    IF i = 0 THEN <<<<>>, r>>
    ELSE LET x == r * B + a[i]
             rest == DivSmallMAt(a, d, i - 1, x % d)
         IN <<rest[1] \o <<x \div d>>, rest[2]>>
DivSmallM(a, d) == LET qr == DivSmallMAt(a, d, Len(a), 0) IN <<TrimM(qr[1]), qr[2]>>

\* magnitude >> k (floor), and the low k bits
ShrM(a, k) == LET w == k \div LB  b == k % LB
              IN IF w >= Len(a) THEN <<>>
                 ELSE LET t == SubSeq(a, w + 1, Len(a))
                      IN IF b = 0 THEN t ELSE DivSmallM(t, 2^b)[1]
LowBitsM(a, k) == LET w == k \div LB  b == k % LB
                  IN IF w >= Len(a) THEN a
                     ELSE TrimM(SubSeq(a, 1, w) \o (IF b = 0 THEN <<>> ELSE <<a[w + 1] % (2^b)>>))
\* floor(a / 2^k) and trunc(a / 2^k)
ShrFloor(a, k) == IF ~a.n THEN Mk(FALSE, ShrM(a.m, k))
                  ELSE IF LowBitsM(a.m, k) = <<>> THEN Mk(TRUE, ShrM(a.m, k))
                  ELSE Mk(TRUE, AddM(ShrM(a.m, k), <<1>>))
ShrTrunc(a, k) == Mk(a.n, ShrM(a.m, k))
\* a mod 2^k in [0, 2^k)
ModPow2(a, k) == LET lo == LowBitsM(a.m, k)
                 IN IF ~a.n \/ lo = <<>> THEN Mk(FALSE, lo) ELSE Sub(Pow2(k), Mk(FALSE, lo))

\* number of bits of the magnitude (0 for zero)
RECURSIVE BitLenSmall(_)
BitLenSmall(x) == IF x = 0 THEN 0 ELSE 1 + BitLenSmall(x \div 2)
BitLenM(a) == IF a = <<>> THEN 0 ELSE (Len(a) - 1) * LB + BitLenSmall(a[Len(a)])
BitLen(a) == BitLenM(a.m)
\* bit i (0-based) of the magnitude
BitM(a, i) == LET w == i \div LB IN IF w >= Len(a) THEN 0 ELSE (a[w + 1] \div (2^(i % LB))) % 2

\* constructive long division of magnitudes, limb at a time; each quotient limb by bisection
RECURSIVE QDigit(_, _, _, _)
QDigit(r, b, lo, hi) ==   \* largest q in lo..hi with q*b <= r   (invariant: lo*b <= r)
    IF lo = hi THEN lo
    ELSE LET mid == (lo + hi + 1) \div 2
         IN IF CmpM(TrimM(MulSmallM(b, mid)), r) <= 0 THEN QDigit(r, b, mid, hi) ELSE QDigit(r, b, lo, mid - 1)
RECURSIVE DivModMAt(_, _, _, _)
DivModMAt(a, b, i, r) ==   \* returns <<quotient limbs (little endian), remainder>>
    IF i = 0 THEN <<<<>>, r>>
    ELSE LET x == TrimM(<<a[i]>> \o r)
             q == QDigit(x, b, 0, B - 1)
             rest == DivModMAt(a, b, i - 1, SubM(x, TrimM(MulSmallM(b, q))))
         IN <<rest[1] \o <<q>>, rest[2]>>
DivModM(a, b) == IF CmpM(a, b) < 0 THEN <<<<>>, a>>      \* fast path: quotient 0
                 ELSE LET qr == DivModMAt(a, b, Len(a), <<>>) IN <<TrimM(qr[1]), qr[2]>>
\* truncated division (C++ semantics), b # 0
TruncDiv(a, b) == Mk(a.n # b.n, DivModM(a.m, b.m)[1])
TruncRem(a, b) == Mk(a.n, DivModM(a.m, b.m)[2])
\* floor division
FloorDiv(a, b) == LET qr == DivModM(a.m, b.m)
                  IN IF a.n = b.n THEN Mk(FALSE, qr[1])
                     ELSE IF qr[2] = <<>> THEN Mk(TRUE, qr[1]) ELSE Mk(TRUE, AddM(qr[1], <<1>>))
FloorMod(a, b) == Sub(a, Mul(FloorDiv(a, b), b))

\* truncated-division contract: a = q*b + r, |r| < |b|, r = 0 or sign(r) = sign(a)
IsTruncDivMod(a, b, q, r) ==
    /\ b.m # <<>>
    /\ Add(Mul(q, b), r) = a
    /\ CmpM(r.m, b.m) < 0
    /\ (r.m = <<>> \/ r.n = a.n)

\* range of a W-bit two's complement (s=TRUE) or unsigned integer
MinOf(w, s) == IF s THEN Neg(Pow2(w - 1)) ELSE Zero
MaxOf(w, s) == IF s THEN Sub(Pow2(w - 1), One) ELSE Sub(Pow2(w), One)
InRange(x, w, s) == Le(MinOf(w, s), x) /\ Le(x, MaxOf(w, s))
\* reduction to the w-bit two's complement / unsigned range
Wrap(x, w, s) == LET u == ModPow2(x, w)
                 IN IF s /\ BitM(u.m, w - 1) = 1 THEN Sub(u, Pow2(w)) ELSE u

\* bitwise operations on non-negative magnitudes (used on w-bit residues)
RECURSIVE BitOpMAt(_, _, _, _)
BitOpMAt(op, a, b, i) ==
    IF i > Len(a) /\ i > Len(b) THEN <<>>
    ELSE LET x == IF i <= Len(a) THEN a[i] ELSE 0
             y == IF i <= Len(b) THEN b[i] ELSE 0
         IN <<(CASE op = "and" -> x & y [] op = "or" -> x | y [] op = "xor" -> x ^^ y)>>
            \o BitOpMAt(op, a, b, i + 1)
BitOpU(op, a, b) == Mk(FALSE, BitOpMAt(op, a.m, b.m, 1))
\* bitwise op on w-bit two's complement values, result re-interpreted with signedness s
BitOp(op, a, b, w, s) == Wrap(BitOpU(op, ModPow2(a, w), ModPow2(b, w)), w, s)
BitNot(a, w, s) == Wrap(Sub(Sub(Pow2(w), One), ModPow2(a, w)), w, s)

\* integer square root (floor) by bisection on bit length; for generators/oracles
RECURSIVE ISqrtAt(_, _, _)
ISqrtAt(x, r, i) ==   \* set bits i..0 of r greedily
    IF i < 0 THEN r
    ELSE LET c == Add(r, Pow2(i))
         IN IF Le(Mul(c, c), x) THEN ISqrtAt(x, c, i - 1) ELSE ISqrtAt(x, r, i - 1)
ISqrt(x) == ISqrtAt(x, Zero, (BitLen(x) + 1) \div 2)
=============================================================================
