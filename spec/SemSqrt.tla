------------------------------- MODULE SemSqrt -------------------------------
(* C19: sqrt returns the floor of the square root at the result's resolution.
   The logged root r is CHECKED against the contract r >= 0 /\ r^2 <= x < (r+1)^2
   on the raw representations (for scaled_integer with even exponent E the result
   has exponent E/2, so the same inequality on raws is the statement at the
   result's resolution); elastic results must have (D+1)/2 digits and fit them.
   The as-coded digit-by-digit loop is model-checked separately (alg/SqrtAlg). *)
EXTENDS CnlTypes

SqUb(out) == out \in {"ub:SIGILL", "ub:SIGFPE", "ub:SIGSEGV", "ub:SIGBUS", "ub:signal"}
JudgeSqrt(e, i) ==
    LET t == i.lt  rs == i.res_t  x == J(e.x)  r == J(e.res)
        cls == <<"Sqrt", t.k, RepOf(t).k>>
        typeOK == CASE t.k = "scaled" -> rs.k = "scaled" /\ 2 * rs.e = t.e /\ rs.r = t.r
                    [] t.k = "elastic" -> rs.k = "elastic" /\ rs.d = (t.d + 1) \div 2
                    [] OTHER -> TRUE
        fits == rs.k # "elastic" \/ Le(r, Sub(Pow2(rs.d), One))
    IN IF x.n THEN [d |-> "skip", nt |-> FALSE, cls |-> cls]
       ELSE IF ~typeOK THEN [d |-> "wrong_type", nt |-> TRUE, cls |-> cls]
       ELSE [d |-> (IF SqUb(e.out) THEN "ub" ELSE IF e.out = "timeout" THEN "timeout"
                    ELSE IF e.out # "ok" THEN "unexpected_signal"
                    ELSE IF ~r.n /\ Le(Mul(r, r), x) /\ Lt(x, Mul(Add(r, One), Add(r, One))) /\ fits THEN "ok"
                    ELSE "wrong_value"),
             nt |-> LET s == ISqrt(x) IN Mul(s, s) = x \/ Mul(Add(s, One), Add(s, One)) = Add(x, One) \/ BitLen(x) >= TDigits(AsIntT(InnerT(t))) - 1,
             cls |-> cls]
=============================================================================
