SPECIFICATION Spec
CONSTANT WINT = 32
POSTCONDITION AllConsumed
CHECK_DEADLOCK FALSE
