SPECIFICATION Spec
CONSTANT WINT = 6
CONSTANT P = 5
CONSTANT W = 6
CONSTANT EMaxIdx = 2
CONSTANT Radices = {10, 3}
INVARIANT DesignInv
CHECK_DEADLOCK FALSE
