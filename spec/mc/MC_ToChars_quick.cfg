SPECIFICATION Spec
CONSTANT MaxNsd = 19
CONSTANT MaxExp = 40
CONSTANT MaxCap = 30
INVARIANT SafeUnlessAssert
INVARIANT AssertFailsOnlyWhenNoDigitFits
CHECK_DEADLOCK FALSE
