SPECIFICATION Spec
CONSTANT WINT = 6
CONSTANT P = 6
CONSTANT PL = 9
CONSTANT Wd = 6
CONSTANT ELow = 11
CONSTANT EMax = 6
CONSTANT DestIdx = {0, 2, 5}
INVARIANT DesignInv
CHECK_DEADLOCK FALSE
