SPECIFICATION Spec
CONSTANT WINT = 6
CONSTANT P = 7
CONSTANT W = 8
CONSTANT EMaxIdx = 3
CONSTANT Radices = {10, 3, 7}
INVARIANT DesignInv
CHECK_DEADLOCK FALSE
