------------------------------ MODULE MC_ToChars ------------------------------
(* Phase A for C13: the as-coded layout solver of to_chars (AsCodedToChars), for every number of significand
   digits, decimal exponent and buffer capacity in the configured box.  Invariant: unless one of the source's own
   assertions fails (the known finding TOCHARS-SMALL-BUFFER-ASSERT: tiny magnitude, tiny buffer, scientific layout
   chosen with a non-positive digit count), every write stays inside [first, last), no copy has a negative length,
   and a successful result satisfies first < p <= last. *)
EXTENDS AsCodedToChars, TLC
CONSTANTS MaxNsd, MaxExp, MaxCap
VARIABLES nsd, e, cap
Init == nsd \in 1..MaxNsd /\ e \in -MaxExp..MaxExp /\ cap \in 0..MaxCap
Next == UNCHANGED <<nsd, e, cap>>
Spec == Init /\ [][Next]_<<nsd, e, cap>>
O == Layout(nsd, e, cap)
SafeUnlessAssert == O.assert_ok => (O.hi <= cap /\ ~O.neg /\ (O.kind # "too_large" => (0 < O.len /\ O.len <= cap)))
\* the assertion can only fail in the known class: scientific layout chosen although not even one digit fits
AssertFailsOnlyWhenNoDigitFits == ~O.assert_ok => (O.kind = "sci" /\ SolveSci(nsd, e, cap).nsd <= 0)
=============================================================================
