SPECIFICATION Spec
CONSTANT WINT = 6
CONSTANT Widths = {3, 6}
INVARIANT DesignInv
CHECK_DEADLOCK FALSE
