SPECIFICATION Spec
CONSTANT MaxNsd = 19
CONSTANT MaxExp = 90
CONSTANT MaxCap = 45
INVARIANT SafeUnlessAssert
INVARIANT AssertFailsOnlyWhenNoDigitFits
CHECK_DEADLOCK FALSE
