----------------------------- MODULE MC_DecFloat -----------------------------
(* Phase A for C04's non-binary scales: the as-coded model of the conversions between floating point and a scaled_integer
   of radix 10 / 3 (alg/AsCodedDecFloat) on a scaled-down machine -- floating point with P significand bits, representations
   of W bits -- compared with the exact rational semantics of SemScaled for EVERY representation value, exponent and float.
   Invariants (the extent of the finding SCALED-NONBINARY-FLOAT-DOUBLE-ROUNDING, proved for the small machine):
     ToFloatInv   scaled -> float: the as-coded result is the correctly rounded value or its neighbour on the other side of the
                  exact value (error below one unit in the last place), never further away, and exact whenever a * r^e is
                  representable with the power itself exact;
     FromFloatInv float -> scaled: the as-coded representation differs from the exact quotient truncated toward zero by at most
                  one, and the cast is undefined only when the exact quotient is within one of the destination's range bounds.
   NoDeviation (not an invariant: violated, for the non-vacuity run) says the as-coded model never deviates at all. *)
EXTENDS AsCodedDecFloat, SemScaled, TLC

CONSTANTS P, W, EMaxIdx, Radices
Exps == {k - EMaxIdx : k \in 0..(2 * EMaxIdx)}
T == IntT(W, 1)

VARIABLES dir, a, ex, r, fm, fe
vars == <<dir, a, ex, r, fm, fe>>

RECURSIVE UpTo(_, _)
UpTo(x, y) == IF Gt(x, y) THEN {} ELSE {x} \cup UpTo(Add(x, One), y)

Init == /\ dir \in {"to_float", "from_float"}
        /\ r \in Radices /\ ex \in Exps
        /\ IF dir = "to_float"
           THEN a \in UpTo(TMin(T), TMax(T)) /\ fm = 0 /\ fe = 0
           ELSE a = Zero /\ fm \in (-(2^P - 1))..(2^P - 1) /\ fe \in (-(P + 4))..4
Next == UNCHANGED vars
Spec == Init /\ [][Next]_vars

\* exact value a * r^ex as a fraction num / den (den > 0)
Num(x, e) == IF e >= 0 THEN Mul(x, PowSmall(r, e)) ELSE x
Den(e) == IF e >= 0 THEN One ELSE PowSmall(r, -e)

\* |x.m * 2^x.e - num/den| < 2^u   (all BigInt; u may be negative)
CloserThanPow2(x, num, den, u) ==
    LET lo == MinI(MinI(x.e, u), 0)
        xs == Shl(x.m, x.e - lo)                        \* x * 2^-lo
        diff == Abs(Sub(Mul(xs, den), Shl(num, -lo)))    \* |x - num/den| * den * 2^-lo
    IN Lt(diff, Mul(Shl(One, u - lo), den))

ToFloatOK ==
    LET x == DecToFloatAsCoded(a, ex, r, P)
        num == Num(a, ex)  den == Den(ex)
        want == IF IsZero(a) THEN <<Zero, 0>>
                ELSE IF ex >= 0 THEN RNE(Abs(num), 0, P) ELSE RNEQuotS(Abs(a), den, P)
        ulpExp == BitLen(want[1]) + want[2] - P          \* exponent of one unit in the last place of the correctly rounded value
    IN IF IsZero(a) THEN FIsZero(x)
       ELSE IsFin(x) /\ CloserThanPow2(x, num, den, ulpExp + 1) /\ (x.m.n = a.n)
ToFloatExact ==
    LET x == DecToFloatAsCoded(a, ex, r, P)
        want == IF IsZero(a) THEN <<Zero, 0>>
                ELSE IF ex >= 0 THEN RNE(Abs(Num(a, ex)), 0, P) ELSE RNEQuotS(Abs(a), Den(ex), P)
    IN IF IsZero(a) THEN FIsZero(x) ELSE IsFin(x) /\ NormDyadic(Abs(x.m), x.e) = want

FromFloatExactQ ==      \* exact quotient x / r^ex truncated toward zero
    LET m == FromInt(fm)
        num == Mul(Shl(Abs(m), NonNeg(fe)), PowSmall(r, NonNeg(-ex)))
        den == Mul(Pow2(NonNeg(-fe)), PowSmall(r, NonNeg(ex)))
        q == TruncDiv(num, den)
    IN IF fm < 0 THEN Neg(q) ELSE q
FromFloatOK ==
    LET v == FloatToDecAsCoded(Fin(FromInt(fm), fe), ex, r, P, T)
        q == FromFloatExactQ
    IN IF v.ub THEN ~InT(Add(q, One), T) \/ ~InT(Sub(q, One), T) \/ ~InT(q, T)
       ELSE Le(Abs(Sub(v.v, q)), One)
FromFloatExact ==
    LET v == FloatToDecAsCoded(Fin(FromInt(fm), fe), ex, r, P, T) IN InT(FromFloatExactQ, T) => (~v.ub /\ v.v = FromFloatExactQ)

DesignInv == IF dir = "to_float" THEN ToFloatOK ELSE FromFloatOK
NoDeviation == IF dir = "to_float" THEN ToFloatExact ELSE FromFloatExact
=============================================================================
