SPECIFICATION Spec
CONSTANT WINT = 5
CONSTANT StdWidths = {2, 3, 5, 8, 16}
CONSTANT MaxD = 7
CONSTANT NarrowWidths = {2, 5}
INVARIANT DesignInv
CHECK_DEADLOCK FALSE
