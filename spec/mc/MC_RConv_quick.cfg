SPECIFICATION Spec
CONSTANT WINT = 6
CONSTANT P = 4
CONSTANT PL = 7
CONSTANT Wd = 6
CONSTANT ELow = 7
CONSTANT EMax = 4
CONSTANT DestIdx = {1, 4}
INVARIANT DesignInv
CHECK_DEADLOCK FALSE
