SPECIFICATION Spec
CONSTANT WINT = 6
CONSTANT Widths = {2, 3, 6}
INVARIANT DesignInv
CHECK_DEADLOCK FALSE
