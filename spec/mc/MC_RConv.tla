------------------------------ MODULE MC_RConv ------------------------------
(* Phase A for C09: the as-coded model of the narrowing conversions (alg/AsCodedRConv) run through the judge itself
   (SemRounding.JudgeRConv) on a scaled-down machine: floating point with P significand bits (long double: PL bits),
   integers of Wd bits.  Every (mode, source value, destination) is turned into the event the recorder would log if the
   library behaved exactly like the as-coded model; the judge classifies it.
   Invariant: the verdict is ok / skip, or the (diagnosis, class) pair is one of the classes listed in
   known_findings.json for C09 -- i.e. on the small machine the formulas deviate from correct rounding ONLY where
     * the bias is added in floating point and rounds          (nearest / tie_to_pos_inf, float source, "bias_rounds")
     * the integer bias leaves the source representation        (scaled -> scaled, "bias_overflows")
     * decimal scales are shifted by bits                        (scaled -> scaled, radix 10, tie_to_pos_inf / neg_inf).
   (Until the two "fix:" commits of round 8 the float -> scaled conversions under tie_to_pos_inf / neg_inf truncated negative
   values toward zero; the model follows the repaired code and TLC now shows the absence of those two classes here.) *)
EXTENDS SemRounding, AsCodedRConv, TLC

CONSTANTS P, PL, Wd, ELow, EMax, DestIdx      \* (TLC configuration files take no negative numbers)
EMin == -ELow
DestExps == {d - 3 : d \in DestIdx}

Tags == {"nearest", "tie_to_pos_inf", "neg_inf"}
IntTypes == {IntT(Wd, 0), IntT(Wd, 1)}

\* BigInt -> the recorder's [sign, limb, ...] encoding (inverse of J)
Enc(x) == <<IF x.n THEN 1 ELSE 0>> \o x.m
FloatRec(neg, m, ex) == [c |-> "fin", n |-> IF neg THEN 1 ELSE 0, m |-> <<0>> \o FromInt(m).m, e |-> ex]
FloatDesc == [k |-> "float", p |-> P]
IntDesc(t) == [k |-> "int", w |-> t.w, s |-> t.s]
ScaledDesc(t, ex) == [k |-> "scaled", e |-> ex, r |-> 2, rep |-> IntDesc(t)]

VARIABLES tag, src, dest, diag, cls
vars == <<tag, src, dest, diag, cls>>

Init == /\ tag \in Tags
        /\ src = "none" /\ dest = "none" /\ diag = "init" /\ cls = <<>>

\* the verdict of the judge on the event the as-coded model would produce
Verdict(tg, f, dd, v) ==
    LET e == [l |-> f, res |-> Enc(v.v), out |-> IF v.ub THEN "ub:SIGILL" ELSE "ok"]
        i == [tag |-> tg, lt |-> FloatDesc, rt |-> dd, res_t |-> dd]
    IN JudgeRConv(e, i)

PickFloatToInt ==
    /\ diag = "init"
    /\ \E neg \in BOOLEAN, m \in 0..(2^P - 1), ex \in EMin..EMax, t \in IntTypes :
          LET f == FloatRec(neg, m, ex)
              v == FloatToInt(tag, FVal(f), P, PL, t)
              r == Verdict(tag, f, IntDesc(t), v)
          IN /\ src' = <<neg, m, ex>> /\ dest' = <<"int", t.s>>
             /\ diag' = r.d /\ cls' = r.cls
    /\ UNCHANGED tag

PickFloatToScaled ==
    /\ diag = "init"
    /\ \E neg \in BOOLEAN, m \in 0..(2^P - 1), ex \in EMin..EMax, t \in IntTypes, de \in DestExps :
          LET f == FloatRec(neg, m, ex)
              v == FloatToScaled(tag, FVal(f), P, t, de)
              r == Verdict(tag, f, ScaledDesc(t, de), v)
          IN /\ src' = <<neg, m, ex>> /\ dest' = <<"scaled", t.s, de>>
             /\ diag' = r.d /\ cls' = r.cls
    /\ UNCHANGED tag

\* finer -> coarser scaled_integer, radix 2 (shift by 1..3 digits) and radix 10 (one digit)
RECURSIVE UpTo(_, _)
UpTo(a, b) == IF Gt(a, b) THEN {} ELSE {a} \cup UpTo(Add(a, One), b)
ScaledDescR(t, ex, r) == [k |-> "scaled", e |-> ex, r |-> r, rep |-> IntDesc(t)]
PickScaledToScaled ==
    /\ diag = "init"
    /\ \E st \in IntTypes, dt \in IntTypes, rk \in {<<2, 1>>, <<2, 2>>, <<2, 3>>, <<10, 1>>} :
         \E a \in UpTo(TMin(st), TMax(st)) :
          LET r == rk[1]  k == rk[2]
              v == ScaledToScaled(tag, a, st, -k, dt, 0, r, Promote(st))
              e == [l |-> Enc(a), res |-> Enc(v.v), out |-> IF v.ub THEN "ub:SIGILL" ELSE "ok"]
              i == [tag |-> tag, lt |-> ScaledDescR(st, -k, r), rt |-> ScaledDescR(dt, 0, r), res_t |-> ScaledDescR(dt, 0, r)]
              rr == JudgeRConv(e, i)
          IN /\ src' = <<"scaled", st.s, a, r, k>> /\ dest' = <<"scaled", dt.s, 0>>
             /\ diag' = rr.d /\ cls' = rr.cls
    /\ UNCHANGED tag

Next == PickFloatToInt \/ PickFloatToScaled \/ PickScaledToScaled
Spec == Init /\ [][Next]_vars

\* the classes of known_findings.json (C09, floating-point sources), as predicates on the judge's class tuple
\*   cls = <<"RConv", tag, "float", dest kind, "pos"/"neg", "tie"/"nontie", "bias_rounds"/"bias_exact", "r2">>
Known ==
    /\ Len(cls) = 8
    /\ \/ cls[2] \in {"nearest", "tie_to_pos_inf"} /\ cls[7] = "bias_rounds" /\ diag \in {"wrong_value", "ub"}
       \* scaled sources: <<"RConv", tag, "scaled", "scaled", sign, tie, "bias_overflows"/"bias_fits", "r2"/"r10">>
       \/ cls[3] = "scaled" /\ cls[2] \in {"nearest", "tie_to_pos_inf"} /\ cls[7] = "bias_overflows" /\ diag \in {"wrong_value", "ub"}
       \/ cls[3] = "scaled" /\ cls[2] \in {"tie_to_pos_inf", "neg_inf"} /\ cls[7] = "bias_fits" /\ cls[8] = "r10" /\ diag = "wrong_value"
DesignInv == diag \in {"init", "ok", "skip"} \/ Known
\* (for a non-vacuity run: violated as soon as the model deviates at all)
NoDeviation == diag \in {"init", "ok", "skip"}
NotAllSkipped == diag # "ok"
=============================================================================
