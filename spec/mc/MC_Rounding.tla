----------------------------- MODULE MC_Rounding -----------------------------
(* Phase A: the as-coded rounding-division formulas of cnl (AsCodedRounding),
   exhaustively on a scaled-down machine, against the ideal RoundQ of SemRounding.
   Invariant: inside the property's domain (divisor # 0, operand values unchanged
   by the usual conversions, rounded quotient representable) the as-coded result
   is the correctly rounded quotient, except where the bias added before dividing
   (or abs() of the most negative narrow dividend) leaves the promoted type --
   the deviation class listed in known_findings.json (RDIV-BIAS-OVERFLOW). *)
EXTENDS SemRounding, AsCodedRounding, TLC

CONSTANT Widths
Types == {IntT(w, s) : w \in Widths, s \in {0, 1}}
RECURSIVE UpTo(_, _)
UpTo(a, b) == IF Gt(a, b) THEN {} ELSE {a} \cup UpTo(Add(a, One), b)
Vals(t) == UpTo(TMin(t), TMax(t))
Tags == {"native", "nearest", "tie_to_pos_inf", "neg_inf"}

VARIABLES tag, lt, rt, a, b, diag
vars == <<tag, lt, rt, a, b, diag>>

Init == /\ tag \in Tags /\ lt \in Types /\ rt \in Types /\ a = Zero /\ b = Zero /\ diag = "init"

Judge(tg, l, r, x, y) ==
    LET u == UAC(l, r) IN
    IF ~InT(x, u) \/ ~InT(y, u) THEN "skip"
    ELSE LET qq == RoundQ(x, y, tg)
             v == AsCodedRoundDiv(tg, TV(l, x), TV(r, y))
         IN IF ~InT(qq, u) THEN "skip" ELSE IF v.ub THEN "ub" ELSE IF v.v = qq THEN "ok" ELSE "wrong_value"

Pick == /\ diag = "init"
        /\ a' \in Vals(lt) /\ b' \in Vals(rt) \ {Zero}
        /\ diag' = Judge(tag, lt, rt, a', b')
        /\ UNCHANGED <<tag, lt, rt>>
Next == Pick
Spec == Init /\ [][Next]_vars

\* the bias |b|/2 added to |a| (plus one for rounding slack) leaves the common type, or abs(MIN) of a narrow lhs
BiasLeavesType ==
    LET u == UAC(lt, rt) IN
    \/ Gt(Add(Abs(a), Abs(b)), TMax(u))
    \/ (tag = "tie_to_pos_inf" /\ lt.s = 1 /\ a = TMin(lt))
KnownDeviation == tag \in {"nearest", "tie_to_pos_inf"} /\ BiasLeavesType
DesignInv == diag \in {"init", "ok", "skip"} \/ KnownDeviation
=============================================================================
