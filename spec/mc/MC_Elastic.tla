------------------------------ MODULE MC_Elastic ------------------------------
(* Phase A: elastic_integer's digit rules and as-coded evaluation (SemElastic),
   exhaustively on a scaled-down machine: every (operator, LhsDigits, LhsSigned,
   LhsNarrowest, RhsDigits, RhsSigned, RhsNarrowest) with digits 1..MaxD and every
   pair of in-range operand values.  Invariant: the as-coded result is the exact
   result and lies in the symmetric range of the policy's digit count -- except
   for / and % when an operand does not survive the cast to the result
   representation (ELASTIC-DIVMOD-NARROWS-OPERAND in known_findings.json). *)
EXTENDS SemElastic, TLC

CONSTANTS MaxD, NarrowWidths
ETypes == {[k |-> "elastic", d |-> d, sg |-> s, narrowest |-> [w |-> nw, s |-> s]] :
             d \in 1..MaxD, s \in {0, 1}, nw \in NarrowWidths}
RepT(t) == IntT(SetDigitsW(MaxI2(t.d, t.narrowest.w - t.sg), t.sg), t.sg)
RECURSIVE UpTo(_, _)
UpTo(a, b) == IF Gt(a, b) THEN {} ELSE {a} \cup UpTo(Add(a, One), b)
EVals(t) == UpTo(IF t.sg = 1 THEN Neg(ElMax(t.d)) ELSE Zero, ElMax(t.d))
Ops == {"add", "sub", "mul", "div", "mod"}

VARIABLES op, l, r, a, b, diag
vars == <<op, l, r, a, b, diag>>
Admissible(o, x, y) ==
    LET sg == IF PolicySigned(o, ElSigned(x), ElSigned(y)) THEN 1 ELSE 0
        need == MaxI2(PolicyDigits(o, x.d, ElSigned(x), y.d, ElSigned(y)), MaxI2(x.narrowest.w, y.narrowest.w) - sg)
    IN \E w \in StdWidths : w - sg >= need
Init == /\ op \in Ops /\ l \in ETypes /\ r \in ETypes /\ Admissible(op, l, r)
        /\ a = Zero /\ b = Zero /\ diag = "init"
Judge(o, x, y, u, v) ==
    LET dg == PolicyDigits(o, x.d, ElSigned(x), y.d, ElSigned(y))
        sgn == PolicySigned(o, ElSigned(x), ElSigned(y))
        got == AsCodedElValue(o, x, RepT(x), u, y, RepT(y), v)
        want == ElExact(o, u, v)
    IN IF got.ub THEN "ub" ELSE IF got.v # want THEN "wrong_value"
       ELSE IF ~InDeclared(want, dg, sgn) THEN "out_of_declared_range" ELSE "ok"
Pick == /\ diag = "init"
        /\ a' \in EVals(l) /\ b' \in EVals(r)
        /\ (op \in {"div", "mod"} => ~IsZero(b'))
        /\ diag' = Judge(op, l, r, a', b')
        /\ UNCHANGED <<op, l, r>>
Spec == Init /\ [][Pick]_vars

Narrowed == LET t == ElOpType(op, l, r) IN Gt(Abs(a), ElMax(TDigits(t))) \/ Gt(Abs(b), ElMax(TDigits(t)))
DesignInv == diag \in {"init", "ok"} \/ (op \in {"div", "mod"} /\ Narrowed)
=============================================================================
