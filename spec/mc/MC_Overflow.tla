----------------------------- MODULE MC_Overflow -----------------------------
(* Phase A (design level): the as-coded overflow detection of cnl, exhaustively,
   on a scaled-down machine, against the ideal semantics of SemOverflow.

   Every (detection path, operator, operand type pair, operand pair) of the
   small machine is one initial state; the invariant says that the as-coded
   outcome IS the ideal outcome, except in the deviation class that
   known_findings.json still lists as open for the real library (operands of
   different signedness under +,-,*,/).  So TLC proves, for the small machine, that there is no
   OTHER deviation: same-signedness +,-,*,/ with equal-or-wider rhs, <<, unary
   minus of int-or-wider operands and every integer conversion are exact iffs
   on both paths.  The same AsCodedOverflow operators judge the recorded events
   of the real code at the real widths. *)
EXTENDS SemOverflow, AsCodedOverflow, TLC

CONSTANT Widths          \* widths of the machine's integer types; WINT (from CxxInt) is one of them

Types == {IntT(w, s) : w \in Widths, s \in {0, 1}}
RECURSIVE UpTo(_, _)
UpTo(a, b) == IF Gt(a, b) THEN {} ELSE {a} \cup UpTo(Add(a, One), b)
Vals(t) == UpTo(TMin(t), TMax(t))
ShiftCounts == UpTo(Zero, FromInt(2 * WINT + 1))

IdealOutcome(exact, rt) ==
    LET sd == Side(exact, rt) IN IF sd = "none" THEN OVal(rt, exact) ELSE OSig(sd, rt)

Diag(ideal, coded) ==
    IF coded = ideal THEN "ok"
    ELSE IF coded.k \in {"ub", "unreachable"} THEN coded.k
    ELSE IF ideal.k = "val" /\ coded.k = "val" THEN "wrong_value"
    ELSE IF ideal.k = "val" THEN "false_overflow"
    ELSE IF coded.k = "val" THEN "missed_overflow" ELSE "wrong_polarity"

VARIABLES kind, path, op, lt, rt, a, b, diag

vars == <<kind, path, op, lt, rt, a, b, diag>>

\* Init chooses the instantiation (so that TLC's workers share the work); Pick chooses the operands.
Init ==
    /\ a = Zero /\ b = Zero /\ diag = "init"
    /\ lt \in Types /\ rt \in Types
    /\ \/ /\ kind = "bin"
          /\ path \in {"intrinsic", "portable"}
          /\ op \in {"add", "sub", "mul", "div", "shl"}
          /\ (op \in {"div", "shl"} => path = "portable")      \* the intrinsic path differs only for add/sub/mul
       \/ kind = "neg" /\ path = "portable" /\ op = "neg" /\ rt = lt
       \/ kind = "conv" /\ path = "portable" /\ op = "conv"

PickBin ==
    /\ kind = "bin"
    /\ a' \in Vals(lt)
    /\ b' \in (IF op = "shl" THEN {x \in ShiftCounts : InT(x, rt)} ELSE Vals(rt))
    /\ (op = "div" => ~IsZero(b'))
    /\ diag' = Diag(IdealOutcome(ExactOp(op, a', b'), OpResult(op, lt, rt)), AsCodedBin(path, op, TV(lt, a'), TV(rt, b')))
PickNeg ==
    /\ kind = "neg"
    /\ a' \in Vals(lt) /\ b' = Zero
    /\ diag' = Diag(IdealOutcome(Neg(a'), OpResult1("neg", lt)), AsCodedNeg(TV(lt, a')))
PickConv ==
    /\ kind = "conv"
    /\ a' \in Vals(lt) /\ b' = Zero
    /\ diag' = Diag(IdealOutcome(a', rt), AsCodedConv(TV(lt, a'), rt))

Next == diag = "init" /\ (PickBin \/ PickNeg \/ PickConv) /\ UNCHANGED <<kind, path, op, lt, rt>>
Spec == Init /\ [][Next]_vars

Mixed == lt.s # rt.s
\* the deviation classes of known_findings.json, as predicates on a design-level case
KnownDeviation ==
    kind = "bin" /\ op \in {"add", "sub", "mul", "div"} /\ Mixed                                 \* OVF-MIXED-SIGN-*
\* (the classes OVF-SUB-NARROW-RHS, OVF-MUL-MINUS-ONE-UB, OVF-SHL-ZERO-UB, OVF-SHL-LOWEST and OVF-NEG-PROMOTED were
\*  removed from this predicate when the corresponding fix: commits went into /repo and the as-coded model was
\*  updated with them: TLC now proves their absence on the small machine)

DesignInv == diag \in {"init", "ok"} \/ KnownDeviation
=============================================================================
