SPECIFICATION Spec
CONSTANT WINT = 6
CONSTANT Widths = {2, 3, 6, 8}
INVARIANT DesignInv
CHECK_DEADLOCK FALSE
