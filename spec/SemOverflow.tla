----------------------------- MODULE SemOverflow -----------------------------
(* Ideal semantics of arithmetic under an overflow tag (properties C06, C07).
   An operation yields an outcome [k, v]:  k = "val" with value v,
   k = "pos"/"neg" = overflow signalled on that side, k = "ub" = the ideal
   semantics itself is outside the defined domain (native tag doing signed
   overflow; zero divisor; negative shift count) -- such events are out of the
   properties' domain and are skipped, never rejected. *)
EXTENDS CxxInt

CheckedTags == {"saturated", "throwing", "trapping"}

\* exact mathematical result
ExactOp(op, a, b) ==
    CASE op \in {"add", "sub", "mul"} -> ExactArith(op, a, b)
      [] op = "div" -> TruncDiv(a, b)
      [] op = "shl" -> Shl(a, ToInt(b))

InDomain(op, a, b) ==
    CASE op = "div" -> ~IsZero(b)
      [] op = "shl" -> ~b.n /\ IsSmall(b) /\ ToInt(b) <= 4096
      [] OTHER -> TRUE

Side(x, t) == IF Gt(x, TMax(t)) THEN "pos" ELSE IF Lt(x, TMin(t)) THEN "neg" ELSE "none"

\* what the event must look like, given tag, result type and exact result
\* returns a diagnosis string; "ok" = accepted
JudgeChecked(tag, rt, exact, out, res) ==
    LET side == Side(exact, rt)
        isTrap == out = "trap:positive overflow" \/ out = "trap:negative overflow"
        isThrow == out = "throw:positive overflow" \/ out = "throw:negative overflow"
        sigPos == out = "trap:positive overflow" \/ out = "throw:positive overflow"
    IN
    IF out \in {"ub:SIGILL", "ub:SIGFPE", "ub:SIGSEGV", "ub:SIGBUS", "ub:signal"} THEN "ub"
    ELSE IF out = "timeout" THEN "timeout"
    \* an exception that is not std::overflow_error (the recorder catches overflow_error first, then std::exception)
    ELSE IF out \in {"throw_other:positive overflow", "throw_other:negative overflow", "throw_other:?"} THEN "wrong_exception_type"
    ELSE IF out # "ok" /\ ~isTrap /\ ~isThrow THEN "unreachable"
    ELSE IF side = "none" THEN
        (IF out # "ok" THEN "false_overflow"
         ELSE IF res = exact THEN "ok"
         ELSE IF tag = "saturated" /\ (res = TMax(rt) \/ res = TMin(rt)) THEN "false_overflow"
         ELSE "wrong_value")
    ELSE  \* overflow on `side`
        CASE tag = "saturated" ->
               (IF out # "ok" THEN "wrong_reaction"
                ELSE IF res = (IF side = "pos" THEN TMax(rt) ELSE TMin(rt)) THEN "ok"
                ELSE IF res = TMax(rt) \/ res = TMin(rt) THEN "wrong_polarity"
                ELSE "missed_overflow")
          [] tag = "throwing" ->
               (IF out = "ok" THEN "missed_overflow"
                ELSE IF ~isThrow THEN "wrong_reaction"
                ELSE IF sigPos = (side = "pos") THEN "ok" ELSE "wrong_polarity")
          [] tag = "trapping" ->
               (IF out = "ok" THEN "missed_overflow"
                ELSE IF ~isTrap THEN "wrong_reaction"
                ELSE IF sigPos = (side = "pos") THEN "ok" ELSE "wrong_polarity")

\* near the edge of the result range or signalled: the non-trivial part of C06
NearEdge(exact, rt) ==
    \/ Side(exact, rt) # "none"
    \/ Le(Sub(TMax(rt), exact), FromInt(2))
    \/ Le(Sub(exact, TMin(rt)), FromInt(2))

SgnPair(lt, rt) == (IF lt.s = 1 THEN "s" ELSE "u") \o (IF rt.s = 1 THEN "s" ELSE "u")
WRel(lt, rt) == LET a == Promote(lt).w  b == Promote(rt).w IN IF a < b THEN "lt" ELSE IF a = b THEN "eq" ELSE "gt"

\* e: event, i: instantiation record [op, tag, path, api, lt, rt, res_t]
JudgeOvBin(e, i) ==
    LET a == J(e.l)  b == J(e.r)
        rtype == OpResult(i.op, i.lt, i.rt)
        cls == <<"OvBin", i.op, i.path, i.tag, SgnPair(i.lt, i.rt), WRel(i.lt, i.rt)>>
    IN
    IF ~InT(a, i.lt) \/ ~InT(b, i.rt) THEN [d |-> "bad_event", nt |-> FALSE, cls |-> cls]
    ELSE IF ~InDomain(i.op, a, b) THEN [d |-> "skip", nt |-> FALSE, cls |-> cls]
    ELSE IF [w |-> i.res_t.w, s |-> i.res_t.s] # [w |-> rtype.w, s |-> rtype.s]
         THEN [d |-> "wrong_type", nt |-> TRUE, cls |-> cls]
    ELSE LET exact == ExactOp(i.op, a, b) IN
         IF i.tag \in CheckedTags
         THEN [d |-> JudgeChecked(i.tag, rtype, exact, e.out, J(e.res)), nt |-> NearEdge(exact, rtype), cls |-> cls]
         ELSE \* native / undefined tags: defined only where the built-in operation is
              LET n == IF i.op = "shl" THEN CShift("shl", TV(i.lt, a), TV(i.rt, b)) ELSE CBin(i.op, TV(i.lt, a), TV(i.rt, b))
              IN IF n.ub \/ (i.tag = "undefined" /\ Side(exact, rtype) # "none")
                 THEN [d |-> "skip", nt |-> FALSE, cls |-> cls]
                 ELSE [d |-> (IF e.out # "ok" THEN "wrong_reaction" ELSE IF J(e.res) = n.v THEN "ok" ELSE "wrong_value"),
                       nt |-> NearEdge(exact, rtype), cls |-> cls]

\* ++x, x++, --x, x-- on overflow_integer<T, tag>: x := x +- 1 checked against T; the expression yields the new (pre) or
\* the old (post) value; on throw / trap the object keeps its value
JudgeOvInc(e, i) ==
    LET a == J(e.l)  t == i.lt
        exact == IF i.op \in {"preinc", "postinc"} THEN Add(a, One) ELSE Sub(a, One)
        d0 == JudgeChecked(i.tag, t, exact, e.out, J(e.res))
        stored == IF Side(exact, t) = "none" THEN exact ELSE IF i.tag = "saturated" THEN (IF Side(exact, t) = "pos" THEN TMax(t) ELSE TMin(t)) ELSE a
        cls == <<"OvInc", i.op, i.path, i.tag, (IF t.s = 1 THEN "s" ELSE "u"), (IF t.w < WINT THEN "lt" ELSE "eq")>>
    IN IF ~InT(a, t) THEN [d |-> "bad_event", nt |-> FALSE, cls |-> cls]
       ELSE [d |-> (IF d0 # "ok" THEN d0
                    ELSE IF J(e.res) # stored THEN "object_not_as_prescribed"
                    ELSE IF e.out = "ok" /\ J(e.ret) # (IF i.op \in {"preinc", "predec"} THEN stored ELSE a) THEN "wrong_value_returned"
                    ELSE "ok"),
             nt |-> NearEdge(exact, t), cls |-> cls]

JudgeOvUn(e, i) ==   \* unary minus
    LET a == J(e.l)
        rtype == OpResult1(i.op, i.lt)
        cls == <<"OvUn", i.op, i.path, i.tag, (IF i.lt.s = 1 THEN "s" ELSE "u"), (IF i.lt.w < WINT THEN "lt" ELSE "eq")>>
    IN
    IF ~InT(a, i.lt) THEN [d |-> "bad_event", nt |-> FALSE, cls |-> cls]
    ELSE IF [w |-> i.res_t.w, s |-> i.res_t.s] # [w |-> rtype.w, s |-> rtype.s]
         THEN [d |-> "wrong_type", nt |-> TRUE, cls |-> cls]
    ELSE LET exact == Neg(a) IN
         IF i.tag \in CheckedTags
         THEN [d |-> JudgeChecked(i.tag, rtype, exact, e.out, J(e.res)), nt |-> NearEdge(exact, rtype), cls |-> cls]
         ELSE LET n == CUn("neg", TV(i.lt, a))
              IN IF n.ub \/ (i.tag = "undefined" /\ Side(exact, rtype) # "none")
                 THEN [d |-> "skip", nt |-> FALSE, cls |-> cls]
                 ELSE [d |-> (IF e.out # "ok" THEN "wrong_reaction" ELSE IF J(e.res) = n.v THEN "ok" ELSE "wrong_value"),
                       nt |-> NearEdge(exact, rtype), cls |-> cls]

\* integer -> integer conversion under an overflow tag; destination type i.rt
JudgeOvConvInt(e, i) ==
    LET a == J(e.l)
        cls == <<"OvConv", "int", i.path, i.tag, SgnPair(i.lt, i.rt),
                 (IF i.lt.w < i.rt.w THEN "lt" ELSE IF i.lt.w = i.rt.w THEN "eq" ELSE "gt")>>
    IN
    IF ~InT(a, i.lt) THEN [d |-> "bad_event", nt |-> FALSE, cls |-> cls]
    ELSE IF [w |-> i.res_t.w, s |-> i.res_t.s] # [w |-> i.rt.w, s |-> i.rt.s]
         THEN [d |-> "wrong_type", nt |-> TRUE, cls |-> cls]
    ELSE IF i.tag \in CheckedTags
         THEN [d |-> JudgeChecked(i.tag, i.rt, a, e.out, J(e.res)), nt |-> NearEdge(a, i.rt), cls |-> cls]
         ELSE IF i.tag = "undefined" /\ Side(a, i.rt) # "none" THEN [d |-> "skip", nt |-> FALSE, cls |-> cls]
         ELSE [d |-> (IF e.out # "ok" THEN "wrong_reaction" ELSE IF J(e.res) = WrapT(a, i.rt) THEN "ok" ELSE "wrong_value"),
               nt |-> NearEdge(a, i.rt), cls |-> cls]
\* floating-point source -> integer destination i.rt under an overflow tag.  The source x = (-1)^n * M * 2^e is
\* logged exactly.  Reading decision (DESIGN 6.0): in the bands max < x < max + 1 and min - 1 < x < min the source
\* "lies outside the range" while its truncation is representable -- both outcomes are accepted there; x >= max + 1
\* and x <= min - 1 must signal; otherwise the truncated value must be returned.
JudgeOvConvF(e, i) ==
    LET f == e.l  dt == i.rt
        mag == IF f.e >= 0 THEN Shl(J(f.m), f.e) ELSE ShrTrunc(J(f.m), -f.e)          \* trunc(|x|)
        tr == IF f.n = 1 THEN Neg(mag) ELSE mag                                         \* trunc(x)
        integral == f.e >= 0 \/ ModPow2(J(f.m), -f.e) = Zero
        \* static_cast<Source>(max()) rounds UP to max + 1 when max has more bits than the float's significand: the
        \* predicate `rhs > Source(max)` then misses exactly x == max + 1 (known finding OVF-CONV-FLOAT-ROUNDED-MAX)
        atRoundedMax == f.n = 0 /\ integral /\ tr = Add(TMax(dt), One) /\ BitLen(TMax(dt)) > i.lt.p
        cls == <<"OvConvF", i.lt.p, i.path, i.tag, IF dt.s = 1 THEN "s" ELSE "u", dt.w, IF atRoundedMax THEN "at_rounded_max" ELSE "plain">>
        side == Side(tr, dt)
        \* ambiguity band: truncation in range but x itself beyond the bound
        band == side = "none" /\ ~integral /\ (tr = TMax(dt) \/ (tr = TMin(dt) /\ f.n = 1))
    IN IF f.c # "fin" \/ f.e > 20000 THEN [d |-> "skip", nt |-> FALSE, cls |-> cls]
       ELSE IF i.tag \notin CheckedTags THEN [d |-> "skip", nt |-> FALSE, cls |-> cls]
       ELSE IF band THEN
            [d |-> (IF JudgeChecked(i.tag, dt, tr, e.out, J(e.res)) = "ok"
                       \/ JudgeChecked(i.tag, dt, IF f.n = 1 THEN Sub(TMin(dt), One) ELSE Add(TMax(dt), One), e.out, J(e.res)) = "ok"
                    THEN "ok" ELSE JudgeChecked(i.tag, dt, tr, e.out, J(e.res))),
             nt |-> TRUE, cls |-> cls]
       ELSE [d |-> JudgeChecked(i.tag, dt, tr, e.out, J(e.res)), nt |-> NearEdge(tr, dt), cls |-> cls]
=============================================================================
