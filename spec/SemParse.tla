------------------------------ MODULE SemParse ------------------------------
(* C15: literals, run-time parsing and constant-driven deduction yield exactly
   the written value.  The token is logged as bytes and evaluated here (Horner in
   unbounded integers); deduced types must hold the value with the promised
   digit count (used digits) and exponent (trailing zeros moved into it). *)
EXTENDS SemText, SemBits

\* token: [+-]? ( 0x hex | 0b bin | 0 oct | dec[.dec] ) with ' separators -> [neg, mant, base, frac]
RECURSIVE DropSeps(_, _)
DropSeps(t, k) == IF k > Len(t) THEN <<>> ELSE IF t[k] = 39 THEN DropSeps(t, k + 1) ELSE <<t[k]>> \o DropSeps(t, k + 1)
RECURSIVE IndexOf(_, _, _)
IndexOf(t, b, k) == IF k > Len(t) THEN 0 ELSE IF t[k] = b THEN k ELSE IndexOf(t, b, k + 1)
HexVal(b) == IF b >= 48 /\ b <= 57 THEN b - 48 ELSE IF b >= 97 /\ b <= 102 THEN b - 87 ELSE IF b >= 65 /\ b <= 70 THEN b - 55 ELSE 99
RECURSIVE HornerB(_, _, _, _)
HornerB(t, k, base, acc) == IF k > Len(t) THEN acc ELSE HornerB(t, k + 1, base, Add(MulSmall(acc, base), FromInt(HexVal(t[k]))))
TokenValue(tok) ==
    LET t0 == DropSeps(tok, 1)
        neg == Len(t0) >= 1 /\ t0[1] = 45
        t == IF Len(t0) >= 1 /\ (t0[1] = 45 \/ t0[1] = 43) THEN SubSeq(t0, 2, Len(t0)) ELSE t0
        dot == IndexOf(t, 46, 1)
        isHex == Len(t) >= 3 /\ t[1] = 48 /\ (t[2] = 120 \/ t[2] = 88)
        isBin == Len(t) >= 3 /\ t[1] = 48 /\ (t[2] = 98 \/ t[2] = 66)
        isOct == ~isHex /\ ~isBin /\ dot = 0 /\ Len(t) >= 2 /\ t[1] = 48
        base == IF isHex THEN 16 ELSE IF isBin THEN 2 ELSE IF isOct THEN 8 ELSE 10
        digs == IF isHex \/ isBin THEN SubSeq(t, 3, Len(t)) ELSE IF isOct THEN SubSeq(t, 2, Len(t))
                ELSE IF dot = 0 THEN t ELSE SubSeq(t, 1, dot - 1) \o SubSeq(t, dot + 1, Len(t))
        frac == IF dot = 0 THEN 0 ELSE Len(t) - dot
    IN [neg |-> neg, mant |-> HornerB(digs, 1, base, Zero), base |-> base, frac |-> frac]

PUb(out) == out \in {"ub:SIGILL", "ub:SIGFPE", "ub:SIGSEGV", "ub:SIGBUS", "ub:signal"}
PDiag(out, ok) == IF PUb(out) THEN "ub" ELSE IF out = "timeout" THEN "timeout" ELSE IF out # "ok" THEN "unreachable"
                  ELSE IF ok THEN "ok" ELSE "wrong_value"

\* run-time parse<T>(token): integer tokens; domain: the value fits T
JudgeParse(e, i) ==
    LET tv == TokenValue(e.tok)
        v == IF tv.neg THEN Neg(tv.mant) ELSE tv.mant
        cls == <<"Parse", tv.base, InnerT(i.rt).k, IF tv.neg THEN "neg" ELSE "pos">>
    IN IF tv.frac # 0 \/ ~InRaw(v, i.rt) THEN [d |-> "skip", nt |-> FALSE, cls |-> cls]
       ELSE [d |-> PDiag(e.out, J(e.res) = v), nt |-> BitLen(v) > 60, cls |-> cls]

\* compile-time literal: suffix i.op in {"_c", "_cnl", "_cnl2", "_wide"}; e.res raw value; i.res_t the deduced type
JudgeLit(e, i) ==
    LET tv == TokenValue(e.tok)
        v == IF tv.neg THEN Neg(tv.mant) ELSE tv.mant
        rs == i.res_t
        raw == J(e.res)
        cls == <<"Lit", i.op, tv.base, IF tv.frac > 0 THEN "frac" ELSE "int">>
    IN IF e.out # "ok" THEN [d |-> PDiag(e.out, FALSE), nt |-> TRUE, cls |-> cls]
       ELSE IF i.op = "_c" THEN
           [d |-> (IF raw = v /\ e.digits = BitLen(v) THEN "ok" ELSE "wrong_value"), nt |-> TRUE, cls |-> cls]
       ELSE IF i.op = "_wide" THEN
           [d |-> (IF raw = v /\ TDigits(AsIntT(InnerT(rs))) >= BitLen(v) THEN "ok" ELSE "wrong_value"), nt |-> TRUE, cls |-> cls]
       ELSE \* _cnl / _cnl2: value = raw * r^e must equal mant / base^frac exactly
           LET r == RadixOf(rs)  ex == ExpOf(rs)
               lhs == Mul(Mul(raw, PowSmall(r, Pos(ex))), PowSmall(tv.base, tv.frac))
               rhs == Mul(v, PowSmall(r, Pos(-ex)))
               rep == RepOf(rs)
               \* significand carries no factor of the radix; its type has exactly the used digits
               shape == /\ rs.k = "scaled" /\ rep.k = "elastic"
                        /\ (IsZero(raw) \/ ~IsZero(TruncRem(raw, FromInt(r))))
                        /\ rep.d = MaxI2(1, BitLen(raw))
                        /\ r = (IF i.op = "_cnl2" THEN 2 ELSE tv.base)
           IN [d |-> (IF lhs # rhs THEN "wrong_value" ELSE IF ~shape THEN "wrong_type" ELSE "ok"), nt |-> TRUE, cls |-> cls]

\* deduction from a constant or a value: i.op names the factory; e.v the initializer; e.res the raw result
JudgeMake(e, i) ==
    LET v == J(e.v)  rs == i.res_t  raw == J(e.res)
        r == IF RadixOf(rs) = 0 THEN 2 ELSE RadixOf(rs)
        ex == ExpOf(rs)
        valueOK == IF ex >= 0 THEN Mul(raw, PowSmall(r, ex)) = v ELSE raw = Mul(v, PowSmall(r, -ex))
        tz == IF IsZero(v) THEN 0 ELSE TrailingZeros(Abs(v))
        ud == BitLen(v)
        \* promised shape for constants: digits = used digits (minus the trailing zeros moved into the exponent)
        \* (class template argument deduction has no guide for constants in this version of the library: only the
        \* value clause is judged for it)
        shapeOK == CASE i.op \in {"make_elastic_integer_c", "make_static_integer_c"} ->
                          HasKind(rs, "elastic") /\ rs.digits = ud
                     \* make_elastic_scaled_integer(constant<0>) deliberately clamps the digit count to 1 (std::max in its
                     \* declared return type; same storage): accepted for that factory only -- zero has no used digits
                     [] i.op = "make_elastic_scaled_integer_c" ->
                          rs.k = "scaled" /\ ex = tz /\ (rs.digits = ud - tz \/ (IsZero(v) /\ rs.digits = 1))
                     [] i.op = "make_static_number_c" ->
                          rs.k = "scaled" /\ ex = tz /\ rs.digits = ud - tz
                     \* make_scaled_integer(constant): the trailing zero bits go into the exponent; the representation only has to hold
                     \* the rest (valueOK), it is a built-in type of at least int's width
                     [] i.op = "make_scaled_integer_c" -> rs.k = "scaled" /\ ex = tz
                     [] OTHER -> TRUE
        \* -2^k: the value whose used-digit count k gives a symmetric elastic range that excludes it (known finding)
        negPow2 == v.n /\ BitLen(Abs(v)) - 1 = TrailingZeros(Abs(v))
        cls == <<"Make", i.op, IF negPow2 THEN "neg_pow2" ELSE "">>
    IN [d |-> (IF e.out # "ok" THEN PDiag(e.out, FALSE) ELSE IF ~valueOK THEN "wrong_value" ELSE IF ~shapeOK THEN "wrong_type" ELSE "ok"),
        nt |-> TRUE, cls |-> cls]
=============================================================================
