----------------------------- MODULE SemFraction -----------------------------
(* C16 / C17: cnl::fraction follows the rationals.  A fraction is the pair of
   raw components <<n, d>>; every clause is decided by cross-multiplication over
   unbounded integers. *)
EXTENDS CnlTypes

FrUb(out) == out \in {"ub:SIGILL", "ub:SIGFPE", "ub:SIGSEGV", "ub:SIGBUS", "ub:signal"}
FrOut(out) == IF FrUb(out) THEN "ub" ELSE IF out = "timeout" THEN "timeout" ELSE IF out = "ok" THEN "ok" ELSE "unexpected_signal"
RatEq(n1, d1, n2, d2) == Mul(n1, d2) = Mul(n2, d1)
\* order of n1/d1 vs n2/d2 for any non-zero denominators: -1, 0, 1
RatCmp(n1, d1, n2, d2) == LET s == Sign(d1) * Sign(d2)
                              c == Cmp(Mul(n1, d2), Mul(n2, d1))
                          IN IF s > 0 THEN c ELSE -c
RECURSIVE Gcd(_, _)
Gcd(a, b) == IF IsZero(b) THEN Abs(a) ELSE Gcd(b, TruncRem(a, b))

CompT(i) == UAC(AsIntT(i.lt.num), AsIntT(i.lt.den))          \* promoted component type of the operands
SgnD(x) == IF x.n THEN "dneg" ELSE "dpos"

\* +, -, *, /  (domain: every product and sum of the cross-multiplication fits the promoted component type)
\* Each product is evaluated in the usual-arithmetic-conversion type of ITS OWN two factors, the sum / difference in the common
\* type of the two products (the operand fractions may have four different component types).
JudgeFrBin(e, i) ==
    LET ln == J(e.l[1])  ld == J(e.l[2])  rn == J(e.r[1])  rd == J(e.r[2])
        n == J(e.res[1])  d == J(e.res[2])
        lnT == AsIntT(i.lt.num)  ldT == AsIntT(i.lt.den)  rnT == AsIntT(i.rt.num)  rdT == AsIntT(i.rt.den)
        P1 == UAC(lnT, rdT)  P2 == UAC(rnT, ldT)  PC == UAC(P1, P2)
        en == CASE i.op = "add" -> Add(Mul(ln, rd), Mul(rn, ld)) [] i.op = "sub" -> Sub(Mul(ln, rd), Mul(rn, ld))
                [] i.op = "mul" -> Mul(ln, rn) [] i.op = "div" -> Mul(ln, rd)
        ed == IF i.op = "div" THEN Mul(ld, rn) ELSE Mul(ld, rd)
        fit == CASE i.op \in {"add", "sub"} ->
                      /\ InT(Mul(ln, rd), P1) /\ InT(Mul(rn, ld), P2) /\ InT(Mul(ln, rd), PC) /\ InT(Mul(rn, ld), PC)
                      /\ InT(en, PC) /\ InT(ed, UAC(ldT, rdT))
                 [] i.op = "mul" -> InT(en, UAC(lnT, rnT)) /\ InT(ed, UAC(ldT, rdT))
                 [] i.op = "div" -> InT(en, P1) /\ InT(ed, UAC(ldT, rnT))
        cls == <<"FrBin", i.op, SgnD(ld), SgnD(rd)>>
    IN IF IsZero(ld) \/ IsZero(rd) \/ IsZero(ed) \/ ~fit THEN [d |-> "skip", nt |-> FALSE, cls |-> cls]
       ELSE [d |-> (IF e.out # "ok" THEN FrOut(e.out) ELSE IF ~IsZero(d) /\ RatEq(n, d, en, ed) THEN "ok" ELSE "wrong_value"),
             nt |-> ld.n \/ rd.n \/ ~IsZero(en), cls |-> cls]

JudgeFrUn(e, i) ==
    LET ln == J(e.l[1])  ld == J(e.l[2])  n == J(e.res[1])  d == J(e.res[2])
        en == IF i.op = "neg" THEN Neg(ln) ELSE ln
        cls == <<"FrUn", i.op, SgnD(ld)>>
    IN IF IsZero(ld) \/ ~InT(en, Promote(AsIntT(i.lt.num))) THEN [d |-> "skip", nt |-> FALSE, cls |-> cls]
       ELSE [d |-> (IF e.out # "ok" THEN FrOut(e.out) ELSE IF ~IsZero(d) /\ RatEq(n, d, en, ld) THEN "ok" ELSE "wrong_value"),
             nt |-> TRUE, cls |-> cls]

\* six comparison results <<lt, le, gt, ge, eq, ne>>
FrCmpVector(c) == <<IF c < 0 THEN 1 ELSE 0, IF c <= 0 THEN 1 ELSE 0, IF c > 0 THEN 1 ELSE 0,
                    IF c >= 0 THEN 1 ELSE 0, IF c = 0 THEN 1 ELSE 0, IF c # 0 THEN 1 ELSE 0>>
JudgeFrCmp(e, i) ==
    LET ln == J(e.l[1])  ld == J(e.l[2])  rn == J(e.r[1])  rd == J(e.r[2])
        P1 == UAC(AsIntT(i.lt.num), AsIntT(i.rt.den))  P2 == UAC(AsIntT(i.rt.num), AsIntT(i.lt.den))  PC == UAC(P1, P2)
        cls == <<"FrCmp", SgnD(ld), SgnD(rd)>>
        fit == InT(Mul(ln, rd), P1) /\ InT(Mul(rn, ld), P2) /\ InT(Mul(ln, rd), PC) /\ InT(Mul(rn, ld), PC)
    IN IF IsZero(ld) \/ IsZero(rd) \/ ~fit THEN [d |-> "skip", nt |-> FALSE, cls |-> cls]
       ELSE LET want == FrCmpVector(RatCmp(ln, ld, rn, rd))
            IN [d |-> (IF e.out # "ok" THEN FrOut(e.out)
                       ELSE IF e.c = want THEN "ok"
                       ELSE IF e.c[5] = want[5] /\ e.c[6] = want[6] THEN "wrong_order" ELSE "wrong_equality"),
                nt |-> ld.n \/ rd.n, cls |-> cls]

\* reduce / canonical: value preserved, lowest terms, (canonical) positive denominator
JudgeFrReduce(e, i) ==
    LET ln == J(e.l[1])  ld == J(e.l[2])  n == J(e.res[1])  d == J(e.res[2])
        t == AsIntT(i.lt.num)
        mostNeg == ln = TMin(t) \/ ld = TMin(AsIntT(i.lt.den))
        cls == <<"FrReduce", i.op, SgnD(ld), IF mostNeg THEN "most_negative_component" ELSE "ordinary">>
    IN IF IsZero(ld) THEN [d |-> "skip", nt |-> FALSE, cls |-> cls]
       ELSE [d |-> (IF e.out # "ok" THEN FrOut(e.out)
                    ELSE IF ~IsZero(d) /\ RatEq(n, d, ln, ld) /\ Gcd(n, d) = One /\ (i.op = "reduce" \/ ~d.n) THEN "ok"
                    ELSE "wrong_value"),
             nt |-> Gcd(ln, ld) # One \/ ld.n, cls |-> cls]

\* equal fractions have equal hashes; library == agrees with the rationals
JudgeFrHash(e, i) ==
    LET ln == J(e.l[1])  ld == J(e.l[2])  rn == J(e.r[1])  rd == J(e.r[2])
        eq == RatEq(ln, ld, rn, rd)
        t == AsIntT(i.lt.num)
        mostNeg == ln = TMin(t) \/ ld = TMin(t) \/ rn = TMin(t) \/ rd = TMin(t)
        cls == <<"FrHash", SgnD(ld), SgnD(rd), IF mostNeg THEN "most_negative_component" ELSE "ordinary">>
    IN IF IsZero(ld) \/ IsZero(rd) THEN [d |-> "skip", nt |-> FALSE, cls |-> cls]
       ELSE [d |-> (IF e.out # "ok" THEN FrOut(e.out) ELSE IF eq /\ e.h1 # e.h2 THEN "equal_fractions_unequal_hash" ELSE "ok"),
             nt |-> eq /\ (ln # rn \/ ld # rd), cls |-> cls]

\* explicit conversion to floating point: RNE(n) / RNE(d) correctly rounded (== n/d correctly rounded when the
\* components are exactly representable); rational rounding via a quotient with a sticky bit
RNEQuot(mn, md, p) ==      \* |mn/md| to p bits: <<mantissa, exponent>> normalised; mn, md > 0
    LET k0 == p + 2 + BitLen(md) - BitLen(mn)
        k == IF k0 < 0 THEN 0 ELSE k0
        num == Shl(mn, k)
        qq == FloorDiv(num, md)
        sticky == IF Mul(qq, md) = num THEN 0 ELSE 1
    IN RNE(Add(MulSmall(qq, 2), FromInt(sticky)), -k - 1, p)
JudgeFrFloat(e, i) ==
    LET ln == J(e.l[1])  ld == J(e.l[2])  p == i.rt.p  f == e.res
        cls == <<"FrFloat", SgnD(ld)>>
    IN IF IsZero(ld) THEN [d |-> "skip", nt |-> FALSE, cls |-> cls]
       ELSE IF IsZero(ln) THEN [d |-> (IF e.out # "ok" THEN FrOut(e.out) ELSE IF f.c = "fin" /\ IsZero(FMag(f)) THEN "ok" ELSE "wrong_value"),
                                nt |-> FALSE, cls |-> cls]
       ELSE LET rn == RNE(Abs(ln), 0, p)  rd == RNE(Abs(ld), 0, p)
                qv == RNEQuot(rn[1], rd[1], p)
                want == <<qv[1], qv[2] + rn[2] - rd[2]>>
            IN [d |-> (IF e.out # "ok" THEN FrOut(e.out)
                       ELSE IF f.c = "fin" /\ NormDyadic(FMag(f), f.e) = want /\ (f.n = 1) = (ln.n # ld.n) THEN "ok" ELSE "wrong_value"),
                nt |-> TRUE, cls |-> cls]

\* C17: fraction from a finite floating-point value x = (-1)^s * M * 2^fe, component type with D digits
JudgeFrFromFloat(e, i) ==
    LET f == e.x  t == AsIntT(i.rt.num)  D == TDigits(t)  mx == TMax(t)
        M == FMag(f)  fe == f.e
        n == J(e.res[1])  d == J(e.res[2])
        neg == f.n = 1
        cls == <<"FrFromFloat", t.w, i.lt.p>>
        unreach == e.out = "unreachable"
        \* |x| as integer X (fe >= 0) or M / 2^k (fe < 0)
        k == IF fe < 0 THEN -fe ELSE 0
        X == IF fe >= 0 THEN Shl(M, fe) ELSE M            \* numerator of |x| over 2^k
        inRange == IF fe >= 0 THEN fe < 200 /\ Le(X, mx) ELSE Le(ShrTrunc(M, k), mx) /\ (k < 20000)
        exactRatio == IF fe >= 0 THEN TRUE ELSE k < 200 /\ Le(M, mx) /\ Le(Pow2(k), mx)
    IN IF f.c # "fin" \/ ~inRange THEN [d |-> "skip", nt |-> FALSE, cls |-> cls]
       ELSE IF e.out # "ok" THEN [d |-> (IF unreach THEN "unreachable" ELSE FrOut(e.out)), nt |-> TRUE, cls |-> cls]
       ELSE IF ~Gt(d, Zero) \/ ~InT(n, t) \/ ~InT(d, t) THEN [d |-> "bad_components", nt |-> TRUE, cls |-> cls]
       ELSE IF ~IsZero(n) /\ n.n # neg THEN [d |-> "wrong_sign", nt |-> TRUE, cls |-> cls]
       ELSE LET an == Abs(n)
                \* an/d vs X/2^k :  diff numerator = |an*2^k - X*d| over d*2^k
                diffN == Abs(Sub(Shl(an, k), Mul(X, d)))
                \* "equals the input": exactly, or -- reading decision, DESIGN 6.0 -- as a floating-point value of the
                \* input's own format (n/d correctly rounded to p bits is x), which is the library's own exit test
                asFloat == ~IsZero(an) /\
                           (\/ RNEQuot(an, d, i.lt.p) = NormDyadic(M, fe)
                            \/ LET rn == RNE(an, 0, i.lt.p)  rd == RNE(d, 0, i.lt.p)  qv == RNEQuot(rn[1], rd[1], i.lt.p)
                               IN <<qv[1], qv[2] + rn[2] - rd[2]>> = NormDyadic(M, fe))
            IN IF exactRatio THEN [d |-> (IF IsZero(diffN) \/ asFloat THEN "ok" ELSE "inexact_for_exact_ratio"), nt |-> TRUE, cls |-> cls]
               ELSE LET fl == ShrTrunc(X, k)                                   \* floor(|x|)
                        between == Le(Mul(fl, d), an) /\ Le(an, Mul(Add(fl, One), d))
                        bigger == IF Gt(X, Pow2(k)) THEN X ELSE Pow2(k)        \* max(1,|x|) * 2^k
                        close == IF D >= 4 THEN Lt(Shl(diffN, D - 4), Mul(bigger, d))
                                 ELSE Lt(diffN, Shl(Mul(bigger, d), 4 - D))
                    IN [d |-> (IF ~between THEN "not_between_adjacent_integers" ELSE IF ~close THEN "too_far" ELSE "ok"),
                        nt |-> TRUE, cls |-> cls]

\* C15 (class template argument deduction) + C17: cnl::fraction{x} for a floating-point x.  The deduced component type must be a
\* signed integer with at least as many digits as the format's significand (so that it "holds that initializer exactly" for every
\* integral initializer of the format), numerator and denominator of the same type; an integral initializer below 2^p must be held
\* exactly; everything else is C17's contract for the deduced component type.
JudgeFrCtad(e, i) ==
    LET f == e.x  t == AsIntT(i.rt.num)  p == i.lt.p
        base == JudgeFrFromFloat(e, i)
        cls == <<"FrCtad", t.w, p>>
        typeOK == i.rt.num.k = "int" /\ i.rt.den = i.rt.num /\ t.s = 1 /\ TDigits(t) >= p
        X == IF f.c = "fin" /\ f.e >= 0 /\ f.e < 200 THEN Shl(FMag(f), f.e) ELSE Zero
        integral == f.c = "fin" /\ f.e >= 0 /\ f.e < 200 /\ BitLen(X) <= p
        sx == IF f.n = 1 THEN Neg(X) ELSE X
        held == e.out = "ok" /\ Gt(J(e.res[2]), Zero) /\ J(e.res[1]) = Mul(sx, J(e.res[2]))
    IN IF ~typeOK THEN [d |-> "wrong_type", nt |-> TRUE, cls |-> cls]
       ELSE IF integral /\ ~held THEN [d |-> "initializer_not_held", nt |-> TRUE, cls |-> cls]
       ELSE base

\* cnl::fraction{n} (n/1 in n's own type) and cnl::fraction{n, d} for integers
JudgeFrCtadInt(e, i) ==
    LET cls == <<"FrCtadInt", i.op>>
        typeOK == i.rt.num = i.lt /\ i.rt.den = i.lt
    IN IF ~typeOK THEN [d |-> "wrong_type", nt |-> TRUE, cls |-> cls]
       ELSE IF e.out # "ok" THEN [d |-> FrOut(e.out), nt |-> TRUE, cls |-> cls]
       ELSE [d |-> (IF J(e.res[1]) = J(e.l) /\ J(e.res[2]) = J(e.r) THEN "ok" ELSE "initializer_not_held"),
             nt |-> J(e.l).n \/ BitLen(J(e.l)) > 8, cls |-> cls]
=============================================================================
