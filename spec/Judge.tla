-------------------------------- MODULE Judge --------------------------------
(* The judge: TLC reads events recorded from the real code (one NDJSON line per
   public-API return), evaluates the specification on each, and writes one
   verdict line per event.  Every expected value is computed HERE, by the spec;
   the C++ side only drives and records.

   The behaviour of this module is the trace itself: state l = number of the
   next event; Step consumes exactly one event.  Acceptance = the whole trace was
   consumed (POSTCONDITION AllConsumed); each event's verdict (ok / skip / a
   diagnosis) goes to the verdict file, so that one rejected event never hides
   the rest of the trace. *)
EXTENDS SemOverflow, AsCodedOverflow, SemScaled, SemRounding, AsCodedRounding, AsCodedRConv, SemElastic, SemSqrt, SemFraction, SemWide, SemNative, SemParse, SemMath, AsCodedToChars, AsCodedMakeFraction, AsCodedDecFloat, AsCodedExp2, TLC, TLCExt, Json, IOUtils, CSV

Tr == ndJsonDeserialize(IOEnv.TRACE)
Insts == ndJsonDeserialize(IOEnv.INSTS)
VerdictFile == IOEnv.VERDICT

VARIABLE l

Verdict0(e, i) ==
    CASE e.e = "OvBin" -> JudgeOvBin(e, i)
      [] e.e = "OvUn" -> JudgeOvUn(e, i)
      [] e.e = "OvInc" -> JudgeOvInc(e, i)
      [] e.e = "OvConvInt" -> JudgeOvConvInt(e, i)
      [] e.e = "OvConvF" -> JudgeOvConvF(e, i)
      [] e.e = "ScBin" -> JudgeScBin(e, i)
      [] e.e = "ScUn" -> JudgeScUn(e, i)
      [] e.e = "ScAssign" -> JudgeScAssign(e, i)
      [] e.e = "ScCmp" -> JudgeScCmp(e, i)
      [] e.e = "ScIdent" -> JudgeScIdent(e, i)
      [] e.e = "ScQuot" -> JudgeScQuot(e, i)
      [] e.e = "ScConv" -> JudgeScConv(e, i)
      [] e.e = "ScRoundTrip" -> JudgeScRoundTrip(e, i)
      [] e.e = "ElBin" -> JudgeElBin(e, i)
      [] e.e = "ElUn" -> JudgeElUn(e, i)
      [] e.e = "ElShift" -> JudgeElShift(e, i)
      [] e.e = "ElScale" -> JudgeElScale(e, i)
      [] e.e = "ElLimits" -> JudgeElLimits(e, i)
      [] e.e = "BitsU" -> JudgeBitsU(e, i)
      [] e.e = "BitsS" -> JudgeBitsS(e, i)
      [] e.e = "BitsW" -> JudgeBitsW(e, i)
      [] e.e = "Rot" -> JudgeRot(e, i)
      [] e.e = "Sqrt" -> JudgeSqrt(e, i)
      [] e.e = "FrBin" -> JudgeFrBin(e, i)
      [] e.e = "FrUn" -> JudgeFrUn(e, i)
      [] e.e = "FrCmp" -> JudgeFrCmp(e, i)
      [] e.e = "FrReduce" -> JudgeFrReduce(e, i)
      [] e.e = "FrHash" -> JudgeFrHash(e, i)
      [] e.e = "FrFloat" -> JudgeFrFloat(e, i)
      [] e.e = "FrFromFloat" -> JudgeFrFromFloat(e, i)
      [] e.e = "FrCtad" -> JudgeFrCtad(e, i)
      [] e.e = "FrCtadInt" -> JudgeFrCtadInt(e, i)
      [] e.e = "WBin" -> JudgeWBin(e, i)
      [] e.e = "WUn" -> JudgeWUn(e, i)
      [] e.e = "WShift" -> JudgeWShift(e, i)
      [] e.e = "WCmp" -> JudgeWCmp(e, i)
      [] e.e = "WConvInt" -> JudgeWConvInt(e, i)
      [] e.e = "WFromInt" -> JudgeWFromInt(e, i)
      [] e.e = "WToFloat" -> JudgeWToFloat(e, i)
      [] e.e = "WFromFloat" -> JudgeWFromFloat(e, i)
      [] e.e = "WLimits" -> JudgeWLimits(e, i)
      [] e.e = "WText" -> JudgeWText(e, i)
      [] e.e = "Tc" -> JudgeTc(e, i)
      [] e.e = "TcStatic" -> JudgeTcStatic(e, i)
      [] e.e = "NtBin" -> JudgeNtBin(e, i)
      [] e.e = "NtCmp" -> JudgeNtCmp(e, i)
      [] e.e = "NtUn" -> JudgeNtUn(e, i)
      [] e.e = "NtAssign" -> JudgeNtAssign(e, i)
      [] e.e = "NtKernel" -> JudgeNtKernel(e, i)
      [] e.e = "Parse" -> JudgeParse(e, i)
      [] e.e = "Lit" -> JudgeLit(e, i)
      [] e.e = "Make" -> JudgeMake(e, i)
      [] e.e = "Exp2" -> JudgeExp2(e, i)
      [] e.e = "Const" -> JudgeConst(e, i)
      [] e.e = "RDiv" -> JudgeRDiv(e, i)
      [] e.e = "ROp" -> JudgeROp(e, i)
      [] e.e = "RConv" -> JudgeRConv(e, i)
      [] OTHER -> [d |-> "unknown_event", nt |-> FALSE, cls |-> <<e.e>>]

\* For a rejected event: does it at least equal what the as-coded model of the *unchanged* library
\* predicts?  "as_coded" = a deviation the models already exhibit (candidate known finding);
\* "novel" = the code does something neither the ideal semantics nor the as-coded model allows.
AsCoded(e, i) ==
    CASE e.e = "OvBin" ->
           LET x == TV(i.lt, J(e.l))  y == TV(i.rt, J(e.r))
           IN MatchesAsCoded(AsCodedBin(i.path, i.op, x, y), i.tag, e.out, J(e.res), NativeBin(i.op, x, y))
      [] e.e = "OvUn" ->
           LET x == TV(i.lt, J(e.l)) IN MatchesAsCoded(AsCodedNeg(x), i.tag, e.out, J(e.res), CUn("neg", x))
      [] e.e = "OvConvInt" ->
           LET x == TV(i.lt, J(e.l)) IN MatchesAsCoded(AsCodedConv(x, i.rt), i.tag, e.out, J(e.res), CConv(x, i.rt))
      [] e.e = "RDiv" ->
           MatchesAsCodedRound(AsCodedRoundDiv(i.tag, TV(AsIntT(i.lt), J(e.l)), TV(AsIntT(i.rt), J(e.r))), e.out, J(e.res))
      [] e.e = "ElBin" -> AsCodedElBin(e, i)
      [] e.e = "Exp2" ->
           IF ExpOf(i.lt) >= 0 THEN FALSE
           ELSE LET r == AsCodedExp2(J(e.x), AsIntT(InnerT(i.lt)), ExpOf(i.lt)) IN ~r.ub /\ e.out = "ok" /\ J(e.res) = r.v
      [] e.e \in {"FrFromFloat", "FrCtad"} ->
           IF e.x.c # "fin" THEN FALSE
           ELSE MatchesMakeFraction(AsCodedMakeFraction(e.x, i.lt.p, AsIntT(i.rt.num)), e.out, J(e.res[1]), J(e.res[2]))
      [] e.e = "ScConv" ->
           \* integer -> integer scaling as coded (scaled/convert_operator.h): scale<k>(from_value<Result>(from)) is computed
           \* in the promoted SOURCE representation, then cast to the destination representation
           LET st == i.lt  dt == i.rt IN
           \* floating point <-> a scale whose radix is not 2 (alg/AsCodedDecFloat.tla)
           IF st.k = "float" /\ dt.k = "scaled" /\ dt.rep.k = "int" /\ dt.r # 2 THEN
               e.l.c = "fin" /\ MatchesRConv(FloatToDecAsCoded(FinOf(e.l), dt.e, dt.r, st.p, AsIntT(dt.rep)), e.out, J(e.res))
           ELSE IF st.k = "scaled" /\ dt.k = "float" /\ st.rep.k = "int" /\ st.r # 2 THEN
               e.out = "ok" /\ SameFloat(e.res, DecToFloatAsCoded(J(e.l), st.e, st.r, dt.p))
           ELSE
           IF st.k \in {"int", "scaled"} /\ dt.k \in {"int", "scaled"} /\ (st.k = "int" \/ st.rep.k = "int")
              /\ (dt.k = "int" \/ dt.rep.k = "int") /\ RadixOK(st, dt)
           THEN LET k == ExpOf(st) - ExpOf(dt)  r == CommonRadix(st, dt)
                    sr == AsIntT(InnerT(st))  dr == AsIntT(InnerT(dt))
                    x == TV(sr, J(e.l))
                    pw == TV(Promote(sr), WrapT(PowSmall(r, IF k < 0 THEN -k ELSE k), Promote(sr)))
                    \* the power itself is built by repeated multiplication in that type: signed overflow there is undefined whatever x is
                    pwUB == Promote(sr).s = 1 /\ ~InT(PowSmall(r, IF k < 0 THEN -k ELSE k), Promote(sr))
                    v == IF k # 0 /\ pwUB THEN TVUB(Promote(sr))
                         ELSE IF k > 0 THEN CBin("mul", x, pw) ELSE IF k < 0 THEN CBin("div", x, pw) ELSE x
                IN MatchesRConv(CConv(v, dr), e.out, J(e.res))
           ELSE FALSE
      [] e.e = "RConv" ->
           LET st == i.lt  dt == i.rt IN
           IF st.k = "float" THEN
               IF e.l.c # "fin" THEN FALSE
               ELSE IF dt.k = "int" THEN MatchesRConv(FloatToInt(i.tag, FVal(e.l), st.p, 64, AsIntT(dt)), e.out, J(e.res))
               \* an elastic destination takes the same float -> integer code, the cast going to its representation
               ELSE IF dt.k = "elastic" /\ dt.rep.k = "int"
                    THEN MatchesRConv(FloatToInt(i.tag, FVal(e.l), st.p, 64, AsIntT(dt.rep)), e.out, J(e.res))
               ELSE IF dt.k = "scaled" /\ dt.r = 2 /\ dt.rep.k = "int"
                    THEN MatchesRConv(FloatToScaled(i.tag, FVal(e.l), st.p, AsIntT(dt.rep), dt.e), e.out, J(e.res))
               ELSE FALSE
           ELSE IF st.k = "scaled" /\ dt.k = "int" /\ st.rep.k = "int" /\ st.e < 0
                \* scaled -> built-in integer goes through scaled_integer<Integer, power<0>>
                THEN MatchesRConv(ScaledToScaled(i.tag, J(e.l), AsIntT(st.rep), st.e, AsIntT(dt), 0, st.r, AsIntT(InnerT(i.res_t))), e.out, J(e.res))
           ELSE IF st.k = "scaled" /\ dt.k = "scaled" /\ st.rep.k = "int" /\ dt.rep.k = "int" /\ st.r = dt.r /\ dt.e > st.e
                THEN MatchesRConv(ScaledToScaled(i.tag, J(e.l), AsIntT(st.rep), st.e, AsIntT(dt.rep), dt.e, st.r, AsIntT(InnerT(i.res_t))), e.out, J(e.res))
           ELSE FALSE
      [] e.e \in {"Tc", "TcStatic"} ->
           \* scaled_integer text: the as-coded descale + layout model must predict the failing assertion / the hang
           IF i.lt.k # "scaled" THEN FALSE
           ELSE LET sigMax == IF TDigits(AsIntT(InnerT(i.lt))) > 63 THEN MaxOf(64, FALSE) ELSE MaxOf(64, TRUE)
                    cap == IF e.e = "Tc" THEN e.cap ELSE i.capacity
                    p == Predict(J(e.v), ExpOf(i.lt), TextRadix(i.lt), sigMax, cap)
                IN (e.out = "unreachable" /\ p = "assert") \/ (e.out = "timeout" /\ p = "hang")
      [] OTHER -> FALSE

\* The verdict of event k is kept in TLC register k (re-evaluating a step is idempotent); all
\* verdicts are written once, by the postcondition, when the whole trace has been consumed.
\* (\E over singleton sets binds each intermediate result to a value: TLC evaluates it once.)
Init == l = 1
Step == /\ l <= Len(Tr)
        /\ \E e \in {Tr[l]} : \E i \in {Insts[e.i]} : \E v \in {Verdict0(e, i)} :
              \E ac \in {IF v.d \in {"ok", "skip"} THEN "-" ELSE IF v.d = "bad_event" THEN "novel"
                          ELSE IF AsCoded(e, i) THEN "as_coded" ELSE "novel"} :
                 TLCSet(l, <<v.d, v.nt, ac, IF v.d \in {"ok", "skip"} THEN <<>> ELSE v.cls>>)
        /\ l' = l + 1
Spec == Init /\ [][Step]_l

AllConsumed == /\ TLCGet("stats").diameter = Len(Tr) + 1
               /\ ndJsonSerialize(VerdictFile, [k \in 1..Len(Tr) |-> TLCGet(k)])
=============================================================================
