------------------------------- MODULE SemWide -------------------------------
(* C10: wide_integer beyond the widest built-in integer behaves as an N-bit
   two's-complement integer, N = storage width of the multi-limb
   representation (make_uintwide rounds Digits (+ sign) up to whole limbs).
   Every expected value is mathematical-integer arithmetic reduced with
   BigInt.Wrap; results therefore cannot depend on the limb split. *)
EXTENDS CnlTypes

WN(t) == InnerT(t).w
WS(t) == InnerT(t).s = 1
WUb(out) == out \in {"ub:SIGILL", "ub:SIGFPE", "ub:SIGSEGV", "ub:SIGBUS", "ub:signal"}
WDiag(out, ok) == IF WUb(out) THEN "ub" ELSE IF out = "timeout" THEN "timeout" ELSE IF out # "ok" THEN "unexpected_signal"
                  ELSE IF ok THEN "ok" ELSE "wrong_value"
\* limb width of the multi-limb representation (0: wide_integer<65..127> is stored in a built-in 128-bit integer)
LimbOf(t) == IF "limb" \in DOMAIN InnerT(t) THEN InnerT(t).limb ELSE 0
WCls(e, i) == <<e.e, i.op, IF WS(i.lt) THEN "s" ELSE "u", LimbOf(i.lt)>>

JudgeWBin(e, i) ==
    LET n == WN(i.lt)  s == WS(i.lt)  a == J(e.l)  b == J(e.r)  cls == WCls(e, i)
        want == CASE i.op = "add" -> Wrap(Add(a, b), n, s) [] i.op = "sub" -> Wrap(Sub(a, b), n, s)
                  [] i.op = "mul" -> Wrap(Mul(a, b), n, s)
                  [] i.op = "div" -> Wrap(TruncDiv(a, b), n, s) [] i.op = "mod" -> Wrap(TruncRem(a, b), n, s)
                  [] OTHER -> BitOp(i.op, a, b, n, s)
    IN IF ~InRange(a, n, s) \/ ~InRange(b, n, s) THEN [d |-> "bad_event", nt |-> FALSE, cls |-> cls]
       ELSE IF i.op \in {"div", "mod"} /\ IsZero(b) THEN [d |-> "skip", nt |-> FALSE, cls |-> cls]
       ELSE [d |-> WDiag(e.out, J(e.res) = want), nt |-> BitLen(a) > 64 \/ BitLen(b) > 64, cls |-> cls]

JudgeWUn(e, i) ==
    LET n == WN(i.lt)  s == WS(i.lt)  a == J(e.l)  cls == WCls(e, i)
        want == CASE i.op = "neg" -> Wrap(Neg(a), n, s) [] i.op = "not" -> BitNot(a, n, s)
                  [] i.op = "inc" -> Wrap(Add(a, One), n, s) [] i.op = "dec" -> Wrap(Sub(a, One), n, s) [] OTHER -> a
    IN [d |-> WDiag(e.out, J(e.res) = want), nt |-> TRUE, cls |-> cls]

JudgeWShift(e, i) ==
    LET n == WN(i.lt)  s == WS(i.lt)  a == J(e.l)  cls == WCls(e, i) IN
    IF e.k < 0 \/ e.k >= n THEN [d |-> "skip", nt |-> FALSE, cls |-> cls]
    ELSE [d |-> WDiag(e.out, J(e.shl) = Wrap(Shl(a, e.k), n, s) /\ J(e.shr) = ShrFloor(a, e.k)),
          nt |-> (LimbOf(i.lt) > 0 /\ e.k % LimbOf(i.lt) = 0) \/ a.n, cls |-> cls]

WCmpVector(c) == <<IF c < 0 THEN 1 ELSE 0, IF c <= 0 THEN 1 ELSE 0, IF c > 0 THEN 1 ELSE 0,
                   IF c >= 0 THEN 1 ELSE 0, IF c = 0 THEN 1 ELSE 0, IF c # 0 THEN 1 ELSE 0>>
JudgeWCmp(e, i) ==
    [d |-> WDiag(e.out, e.c = WCmpVector(Cmp(J(e.l), J(e.r)))), nt |-> TRUE, cls |-> WCls(e, i)]

\* conversion to a built-in integer: modulo 2^width
JudgeWConvInt(e, i) ==
    [d |-> WDiag(e.out, J(e.res) = WrapT(J(e.l), AsIntT(i.rt))), nt |-> ~InT(J(e.l), AsIntT(i.rt)), cls |-> WCls(e, i)]
\* construction from a built-in integer: modulo 2^N
JudgeWFromInt(e, i) ==
    [d |-> WDiag(e.out, J(e.res) = Wrap(J(e.l), WN(i.rt), WS(i.rt))), nt |-> J(e.l).n, cls |-> <<e.e, i.op, IF WS(i.rt) THEN "s" ELSE "u", LimbOf(i.rt)>>]
\* conversion to double: correctly rounded (round to nearest even)
JudgeWToFloat(e, i) ==
    LET a == J(e.l)  f == e.res  want == RNE(Abs(a), 0, i.rt.p)  cls == WCls(e, i) IN
    IF BitLen(a) > 1000 THEN [d |-> "skip", nt |-> FALSE, cls |-> cls]
    \* the property does not name a rounding rule for an integer that the format cannot hold: either neighbour is
    \* accepted (wide_integer accumulates limb by limb and so rounds twice: 2^124 + 2^71 + 1 -> 2^124)
    ELSE [d |-> WDiag(e.out, f.c = "fin" /\ IsFaithful(NormDyadic(FMag(f), f.e), Abs(a), 0, i.rt.p) /\ (IsZero(a) \/ (f.n = 1) = a.n)),
          nt |-> BitLen(a) > i.rt.p, cls |-> cls]
\* construction from a double: truncation toward zero, modulo nothing (in range by construction of the stimuli)
JudgeWFromFloat(e, i) ==
    LET f == e.l  n == WN(i.rt)  s == WS(i.rt)
        mag == IF f.e >= 0 THEN Shl(FMag(f), f.e) ELSE ShrTrunc(FMag(f), -f.e)
        v == IF f.n = 1 THEN Neg(mag) ELSE mag
        cls == <<e.e, i.op, IF s THEN "s" ELSE "u", LimbOf(i.rt)>>
    IN IF f.c # "fin" \/ f.e > 4000 \/ ~InRange(v, n, s) THEN [d |-> "skip", nt |-> FALSE, cls |-> cls]
       ELSE [d |-> WDiag(e.out, J(e.res) = v), nt |-> BitLen(v) > 64, cls |-> cls]
\* numeric_limits by Digits
JudgeWLimits(e, i) ==
    LET t == i.lt  s == WS(t)
        hi == Sub(Pow2(t.d), One)
        \* the storage must hold every value of the declared digits (one more bit for the sign)
        roomy == WN(t) >= t.d + (IF s THEN 1 ELSE 0)
    IN [d |-> (IF ~roomy THEN "storage_narrower_than_digits" ELSE IF J(e.hi) = hi /\ e.digits = t.d /\ (IF s THEN Lt(J(e.lo), Zero) /\ Le(Neg(Add(hi, One)), J(e.lo)) ELSE IsZero(J(e.lo)))
               THEN "ok" ELSE "wrong_limits"),
        nt |-> TRUE, cls |-> WCls(e, i)]
\* decimal text: the canonical numeral
RECURSIVE DecValue(_, _, _)
DecValue(txt, k, acc) == IF k > Len(txt) THEN acc ELSE DecValue(txt, k + 1, Add(MulSmall(acc, 10), FromInt(txt[k] - 48)))
IsDigitByte(b) == b >= 48 /\ b <= 57
JudgeWText(e, i) ==
    LET a == J(e.l)  t == e.txt  cls == WCls(e, i)
        neg == Len(t) >= 1 /\ t[1] = 45
        digs == IF neg THEN SubSeq(t, 2, Len(t)) ELSE t
        canon == /\ Len(digs) >= 1 /\ \A k \in 1..Len(digs) : IsDigitByte(digs[k])
                 /\ (Len(digs) = 1 \/ digs[1] # 48) /\ (neg => a.n)
    IN [d |-> WDiag(e.out, canon /\ DecValue(digs, 1, Zero) = Abs(a) /\ neg = a.n), nt |-> BitLen(a) > 64, cls |-> cls]
=============================================================================
