------------------------------ MODULE JudgeMachine ------------------------------
(* Trace validation of recorded C11 histories against CnlMachine: the machine state (the register file) is
   carried from line to line; every recorded step must be a transition the specification allows from the state
   the specification itself computed.  One verdict per line (same format as Judge); after a rejected line the
   state is re-synchronised from the recorded one so that the rest of the trace is still examined. *)
EXTENDS CnlMachine, TLC, TLCExt, Json, IOUtils

Tr == ndJsonDeserialize(IOEnv.TRACE)
Insts == ndJsonDeserialize(IOEnv.INSTS)
VerdictFile == IOEnv.VERDICT

VARIABLES l, regs
NR == 4
ZeroRegs == [r \in 1..NR |-> Zero]

MUbOut(out) == out \in {"ub:SIGILL", "ub:SIGFPE", "ub:SIGSEGV", "ub:SIGBUS", "ub:signal"}
Verdict(e, menu) ==
    CASE e.e = "StReset" -> [d |-> "ok", nt |-> FALSE, cls |-> <<"StReset">>]
      [] e.e = "StLoad" ->
           [d |-> (IF Le(Abs(J(e.v)), TMaxRaw(menu[e.r])) THEN "ok" ELSE "bad_event"), nt |-> FALSE, cls |-> <<"StLoad">>]
      [] e.e = "StStep" ->
           LET ta == menu[e.a]  tb == menu[e.b]  td == menu[e.d]
               ra == J(e.va)  rb == J(e.vb)
               all == [r \in 1..NR |-> J(e.all[r])]
               cls == <<"StStep", e.op, OverflowOf(td), RoundingOf(td),
                        IF Signalled(e.op, ta, ra, tb, rb, td) THEN "overflow" ELSE "in_range",
                        IF DivOperandNarrowed(e.op, ta, ra, tb, rb) THEN "div_operand_narrowed"
                        ELSE IF DivBiasOverflows(e.op, ta, ra, tb, rb) THEN "div_bias_overflows"
                        ELSE IF NarrowingBiasUnrepresentable(e.op, ta, ra, tb, rb, td) THEN "narrowing_bias_unrepresentable"
                        ELSE IF ShrLeavesRange(e.op, ta, ra, tb, rb, td) THEN "shr_negative_leaves_range"
                        ELSE "plain">>
           IN [d |-> (IF ra # regs[e.a] \/ rb # regs[e.b] \/ J(e.before) # regs[e.d] THEN "state_mismatch"
                      ELSE IF MUbOut(e.out) THEN "ub"
                      ELSE IF e.out = "unreachable" THEN "unreachable"
                      ELSE IF \E r \in 1..NR : r # e.d /\ all[r] # regs[r] THEN "other_register_changed"
                      ELSE IF all[e.d] # J(e.after) THEN "bad_event"
                      ELSE IF StepOK(e.op, ta, ra, tb, rb, td, J(e.before), J(e.after), e.out) THEN "ok"
                      ELSE IF Signalled(e.op, ta, ra, tb, rb, td) THEN (IF e.out = "ok" THEN "missed_overflow" ELSE "wrong_reaction")
                      ELSE IF e.out # "ok" THEN "false_overflow" ELSE "silently_wrong"),
               nt |-> TRUE, cls |-> cls]
      [] OTHER -> [d |-> "unknown_event", nt |-> FALSE, cls |-> <<e.e>>]

NextRegs(e) ==
    CASE e.e = "StReset" -> ZeroRegs
      [] e.e = "StLoad" -> [regs EXCEPT ![e.r] = J(e.v)]
      [] e.e = "StStep" -> [r \in 1..NR |-> J(e.all[r])]         \* re-synchronise from the recorded state
      [] OTHER -> regs

Init == l = 1 /\ regs = ZeroRegs
Step == /\ l <= Len(Tr)
        /\ \E e \in {Tr[l]} : \E v \in {Verdict(e, Insts[e.i].lt)} :
              /\ TLCSet(l, <<v.d, v.nt, IF v.d \in {"ok", "skip"} THEN "-" ELSE "novel", IF v.d \in {"ok", "skip"} THEN <<>> ELSE v.cls>>)
              /\ regs' = NextRegs(e)
        /\ l' = l + 1
Spec == Init /\ [][Step]_<<l, regs>>
AllConsumed == /\ TLCGet("stats").diameter = Len(Tr) + 1
               /\ ndJsonSerialize(VerdictFile, [k \in 1..Len(Tr) |-> TLCGet(k)])
=============================================================================
