------------------------------ MODULE JudgeMachine ------------------------------
(* Trace validation of recorded C11 histories against CnlMachine: the machine state (the register file) is
   carried from line to line; every recorded step must be a transition the specification allows from the state
   the specification itself computed.  One verdict per line (same format as Judge); after a rejected line the
   state is re-synchronised from the recorded one so that the rest of the trace is still examined. *)
EXTENDS CnlMachine, AsCodedRConv, TLC, TLCExt, Json, IOUtils

Tr == ndJsonDeserialize(IOEnv.TRACE)
Insts == ndJsonDeserialize(IOEnv.INSTS)
VerdictFile == IOEnv.VERDICT

VARIABLES l, regs
NR == 4
ZeroRegs == [r \in 1..NR |-> Zero]

MUbOut(out) == out \in {"ub:SIGILL", "ub:SIGFPE", "ub:SIGSEGV", "ub:SIGBUS", "ub:signal"}
Verdict(e, menu) ==
    CASE e.e = "StReset" -> [d |-> "ok", nt |-> FALSE, cls |-> <<"StReset">>]
      [] e.e = "StLoad" ->
           [d |-> (IF InRegRange(J(e.v), menu[e.r]) THEN "ok" ELSE "bad_event"), nt |-> FALSE, cls |-> <<"StLoad">>]
      [] e.e = "StStep" ->
           LET ta == menu[e.a]  tb == menu[e.b]  td == menu[e.d]
               ra == J(e.va)  rb == J(e.vb)
               all == [r \in 1..NR |-> J(e.all[r])]
               cls == <<"StStep", e.op, e.form, OverflowOf(td), RoundingOf(td),
                        IF Signalled(e.op, ta, ra, tb, rb, td) THEN "overflow" ELSE "in_range",
                        \* (the class "div_operand_narrowed" disappeared with the fix of the elastic / and % operand cast)
                        IF e.op = "mod" /\ ShiftExceedsDigits(e.op, ta, ra, tb, rb, td) THEN "shift_exceeds_digits"
                        ELSE IF DivBiasOverflows(e.op, ta, ra, tb, rb) THEN "div_bias_overflows"
                        ELSE IF NarrowingBiasUnrepresentable(e.op, ta, ra, tb, rb, td) THEN "narrowing_bias_unrepresentable"
                        ELSE IF ShrLeavesRange(e.op, ta, ra, tb, rb, td) THEN "shr_negative_leaves_range"
                        ELSE "plain">>
           IN [d |-> (IF ra # regs[e.a] \/ rb # regs[e.b] \/ J(e.before) # regs[e.d] THEN "state_mismatch"
                      ELSE IF MUbOut(e.out) THEN "ub"
                      ELSE IF e.out = "unreachable" THEN "unreachable"
                      ELSE IF \E r \in 1..NR : r # e.d /\ all[r] # regs[r] THEN "other_register_changed"
                      ELSE IF all[e.d] # J(e.after) THEN "bad_event"
                      ELSE IF StepOK(e.op, ta, ra, tb, rb, td, J(e.before), J(e.after), e.out) THEN "ok"
                      ELSE IF SignalOnUnrounded(OpResultValue(e.op, ta, ra, tb, rb), td, J(e.before), J(e.after), e.out) THEN "ok"
                      ELSE IF Signalled(e.op, ta, ra, tb, rb, td) THEN (IF e.out = "ok" THEN "missed_overflow" ELSE "wrong_reaction")
                      ELSE IF e.out # "ok" THEN "false_overflow" ELSE "silently_wrong"),
               nt |-> TRUE, cls |-> cls]
      [] e.e = "StCmp" ->
           LET ta == menu[e.a]  tb == menu[e.b]  ra == J(e.va)  rb == J(e.vb)
               all == [r \in 1..NR |-> J(e.all[r])]
               cls == <<"StCmp", IF TExp(ta) = TExp(tb) THEN "same_exponent" ELSE "mixed_exponent">>
           IN [d |-> (IF ra # regs[e.a] \/ rb # regs[e.b] THEN "state_mismatch"
                      ELSE IF MUbOut(e.out) THEN "ub" ELSE IF e.out # "ok" THEN "unexpected_signal"
                      ELSE IF all # regs THEN "other_register_changed"
                      ELSE IF e.mask = CmpMaskOf(CmpValue(ta, ra, tb, rb)) THEN "ok" ELSE "wrong_order"),
               nt |-> TRUE, cls |-> cls]
      [] e.e = "StToFlt" ->
           LET ta == menu[e.a]  ra == J(e.va)  f == e.res
               all == [r \in 1..NR |-> J(e.all[r])]
               cls == <<"StToFlt", IF BitLen(ra) > 53 THEN "inexact" ELSE "exact">>
           IN [d |-> (IF ra # regs[e.a] THEN "state_mismatch"
                      ELSE IF MUbOut(e.out) THEN "ub" ELSE IF e.out # "ok" THEN "unexpected_signal"
                      ELSE IF all # regs THEN "other_register_changed"
                      ELSE IF f.c = "fin" /\ (IF IsZero(ra) THEN IsZero(FMag(f))
                                               ELSE (f.n = 1) = ra.n
                                                    /\ LET nd == NormDyadic(FMag(f), f.e) IN IsFaithful(<<nd[1], nd[2] - TExp(ta)>>, Abs(ra), 0, 53))
                           THEN "ok" ELSE "wrong_value"),
               nt |-> TRUE, cls |-> cls]
      [] e.e = "StFromInt" ->
           LET td == menu[e.d]  kv == J(e.v)
               all == [r \in 1..NR |-> J(e.all[r])]
               c == ConvertTo(<<kv, 0>>, td)
               cls == <<"StFromInt", OverflowOf(td), RoundingOf(td), IF c.k # "val" THEN "overflow" ELSE "in_range",
                        IF TExp(td) > 0 THEN "coarser" ELSE "exact">>
           IN [d |-> (IF J(e.before) # regs[e.d] THEN "state_mismatch"
                      ELSE IF MUbOut(e.out) THEN "ub"
                      ELSE IF e.out = "unreachable" THEN "unreachable"
                      ELSE IF \E r \in 1..NR : r # e.d /\ all[r] # regs[r] THEN "other_register_changed"
                      ELSE IF all[e.d] # J(e.after) THEN "bad_event"
                      ELSE IF StoreOK(<<kv, 0>>, td, J(e.before), J(e.after), e.out) THEN "ok"
                      ELSE IF SignalOnUnrounded(<<kv, 0>>, td, J(e.before), J(e.after), e.out) THEN "ok"
                      ELSE IF c.k # "val" THEN (IF e.out = "ok" THEN "missed_overflow" ELSE "wrong_reaction")
                      ELSE IF e.out # "ok" THEN "false_overflow" ELSE "silently_wrong"),
               nt |-> TRUE, cls |-> cls]
      [] e.e = "StIncDec" ->
           \* ++d, d++, --d, d--: d := d +- 1 (one, not one unit of the last place), stored like the result of a Step
           LET td == menu[e.d]  b0 == J(e.before)  ex == TExp(td)  em == MinI(ex, 0)
               all == [r \in 1..NR |-> J(e.all[r])]
               one == Pow2(-em)
               raw1 == IF e.op \in {"preinc", "postinc"} THEN Add(Shl(b0, ex - em), one) ELSE Sub(Shl(b0, ex - em), one)
               c == ConvertTo(<<raw1, em>>, td)
               cls == <<"StIncDec", e.op, OverflowOf(td), RoundingOf(td), IF c.k # "val" THEN "overflow" ELSE "in_range">>
           IN [d |-> (IF b0 # regs[e.d] THEN "state_mismatch"
                      ELSE IF MUbOut(e.out) THEN "ub"
                      ELSE IF e.out = "unreachable" THEN "unreachable"
                      ELSE IF \E r \in 1..NR : r # e.d /\ all[r] # regs[r] THEN "other_register_changed"
                      ELSE IF all[e.d] # J(e.after) THEN "bad_event"
                      ELSE IF StoreOK(<<raw1, em>>, td, b0, J(e.after), e.out) THEN "ok"
                      ELSE IF SignalOnUnrounded(<<raw1, em>>, td, b0, J(e.after), e.out) THEN "ok"
                      ELSE IF c.k # "val" THEN (IF e.out = "ok" THEN "missed_overflow" ELSE "wrong_reaction")
                      ELSE IF e.out # "ok" THEN "false_overflow" ELSE "silently_wrong"),
               nt |-> TRUE, cls |-> cls]
      [] e.e = "StFromFlt" ->
           LET td == menu[e.d]  f == e.x
               xv == <<IF f.n = 1 THEN Neg(FMag(f)) ELSE FMag(f), f.e>>           \* the double, exactly
               all == [r \in 1..NR |-> J(e.all[r])]
               c == ConvertTo(xv, td)
               lossy == f.e < TExp(td) /\ ~IsZero(ModPow2(FMag(f), TExp(td) - f.e))
               cls == <<"StFromFlt", OverflowOf(td), RoundingOf(td), IF c.k # "val" THEN "overflow" ELSE "in_range",
                        IF lossy THEN (IF f.n = 1 THEN "lossy_neg" ELSE "lossy_pos") ELSE "exact">>
           IN [d |-> (IF J(e.before) # regs[e.d] THEN "state_mismatch"
                      ELSE IF MUbOut(e.out) THEN "ub"
                      ELSE IF e.out = "unreachable" THEN "unreachable"
                      ELSE IF \E r \in 1..NR : r # e.d /\ all[r] # regs[r] THEN "other_register_changed"
                      ELSE IF all[e.d] # J(e.after) THEN "bad_event"
                      ELSE IF StoreOK(xv, td, J(e.before), J(e.after), e.out) THEN "ok"
                      ELSE IF SignalOnUnrounded(xv, td, J(e.before), J(e.after), e.out) THEN "ok"
                      ELSE IF c.k # "val" THEN (IF e.out = "ok" THEN "missed_overflow" ELSE "wrong_reaction")
                      ELSE IF e.out # "ok" THEN "false_overflow" ELSE "silently_wrong"),
               nt |-> TRUE, cls |-> cls]
      [] OTHER -> [d |-> "unknown_event", nt |-> FALSE, cls |-> <<e.e>>]

\* For a rejected line: does it equal what the unchanged library is known to do (candidate known finding)?
\*  * construction from a built-in integer scales the integer with built-in (truncating) arithmetic before any
\*    rounding tag is involved: a coarser destination gets the quotient truncated toward zero;
\*  * the scaling is computed in the integer's own 64-bit type under the destination's overflow tag (the C04 finding
\*    SCALED-CONV-SCALES-IN-SOURCE-REP): a finer destination that could hold the value reports an overflow.
AsCodedM(e, menu) ==
    IF e.e = "StFromFlt" THEN
        \* tie_to_pos_inf construction of an integer-valued type from a double is floor(x + 0.5) with the sum rounded
        \* to double (the C09 finding RCONV-FLOAT-BIAS-ROUNDS seen through static_integer)
        LET td == menu[e.d]  f == e.x
            v == FloatToInt("tie_to_pos_inf", FVal(f), 53, 64, IntT(128, 1))
        IN RoundingOf(td) = "tie_to_pos_inf" /\ TExp(td) = 0 /\ f.c = "fin" /\ ~v.ub /\ e.out = "ok" /\ J(e.after) = v.v
           /\ InRegRange(v.v, td)
    ELSE IF e.e # "StFromInt" THEN FALSE
    ELSE LET td == menu[e.d]  kv == J(e.v)  ex == TExp(td) IN
         IF ex > 0 THEN
             LET tr == TruncDiv(kv, Pow2(ex)) IN e.out = "ok" /\ J(e.after) = tr /\ InRegRange(tr, td)
         ELSE IF BitLen(kv) - ex > 63 THEN
             CASE OverflowOf(td) = "throwing" -> e.out = (IF kv.n THEN "throw:negative overflow" ELSE "throw:positive overflow") /\ e.after = e.before
               [] OverflowOf(td) = "trapping" -> e.out = (IF kv.n THEN "trap:negative overflow" ELSE "trap:positive overflow") /\ e.after = e.before
               [] OTHER -> FALSE
         ELSE FALSE

NextRegs(e) ==
    CASE e.e = "StReset" -> ZeroRegs
      [] e.e = "StLoad" -> [regs EXCEPT ![e.r] = J(e.v)]
      [] e.e \in {"StStep", "StFromInt", "StFromFlt", "StCmp", "StToFlt", "StIncDec"} -> [r \in 1..NR |-> J(e.all[r])]      \* re-synchronise from the recorded state
      [] OTHER -> regs

Init == l = 1 /\ regs = ZeroRegs
Step == /\ l <= Len(Tr)
        /\ \E e \in {Tr[l]} : \E v \in {Verdict(e, Insts[e.i].lt)} :
              /\ TLCSet(l, <<v.d, v.nt, IF v.d \in {"ok", "skip"} THEN "-" ELSE IF AsCodedM(e, Insts[e.i].lt) THEN "as_coded" ELSE "novel",
                             IF v.d \in {"ok", "skip"} THEN <<>> ELSE v.cls>>)
              /\ regs' = NextRegs(e)
        /\ l' = l + 1
Spec == Init /\ [][Step]_<<l, regs>>
AllConsumed == /\ TLCGet("stats").diameter = Len(Tr) + 1
               /\ ndJsonSerialize(VerdictFile, [k \in 1..Len(Tr) |-> TLCGet(k)])
=============================================================================
