----------------------------- MODULE SemElastic -----------------------------
(* Ideal semantics of elastic_integer (C05): the per-operator digit/signedness
   rules of the result type, the exact value of every result, and the symmetric
   range [-(2^D - 1), 2^D - 1] that numeric_limits must report and every result
   must respect.  AsCodedEl* transcribe include/cnl/_impl/elastic_tag/
   custom_operator.h (operands are cast to the RESULT rep, then the built-in
   operator is applied) so that the known narrowing defect of / and % can be told
   from any new deviation. *)
EXTENDS CnlTypes

CONSTANT StdWidths     \* widths of the built-in integer types that can store an elastic_integer

ElDigits(d) == d.d
ElSigned(d) == d.sg = 1
\* policy.h
PolicyDigits(op, ld, ls, rd, rs) ==
    CASE op = "add" -> MaxI2(ld, rd) + 1
      [] op = "sub" -> MaxI2(ld, rd) + (IF ls \/ rs THEN 1 ELSE 0)
      [] op = "mul" -> MaxI2(1, (IF ld = 1 THEN 0 ELSE ld) + (IF rd = 1 THEN 0 ELSE rd))
      [] op = "div" -> ld
      [] op = "mod" -> MinI(ld, rd)
PolicySigned(op, ls, rs) == IF op = "sub" THEN TRUE ELSE ls \/ rs
\* a built-in integer operand takes part as elastic_integer<digits(int type), that type>
AsElastic(d) == IF d.k = "elastic" THEN d
                ELSE [k |-> "elastic", d |-> d.digits, sg |-> d.sg, rep |-> d, digits |-> d.digits, narrowest |-> d]
ElExact(op, a, b) == CASE op = "add" -> Add(a, b) [] op = "sub" -> Sub(a, b) [] op = "mul" -> Mul(a, b)
                       [] op = "div" -> TruncDiv(a, b) [] op = "mod" -> TruncRem(a, b)
ElMax(dg) == Sub(Pow2(dg), One)
InDeclared(x, dg, sgn) == Le(x, ElMax(dg)) /\ (IF sgn THEN Le(Neg(ElMax(dg)), x) ELSE ~x.n)
\* storage: the narrowest built-in integer of the right signedness with at least max(digits(narrowest), D) digits
StorageOK(rs) == rs.rep.k \in {"int", "multi"} /\ TDigits(rs.rep) >= rs.d /\ rs.rep.s = rs.sg
                 /\ (rs.rep.w > 8 => (rs.rep.w \div 2) - rs.rep.s < MaxI2(rs.d, rs.narrowest.digits))

ElUb(out) == out \in {"ub:SIGILL", "ub:SIGFPE", "ub:SIGSEGV", "ub:SIGBUS", "ub:signal"}
ElDiag(out, got, want, dg, sgn) ==
    IF ElUb(out) THEN "ub" ELSE IF out = "timeout" THEN "timeout" ELSE IF out # "ok" THEN "unexpected_signal"
    ELSE IF got # want THEN "wrong_value" ELSE IF ~InDeclared(got, dg, sgn) THEN "out_of_declared_range" ELSE "ok"

SetDigitsW(need, s) == LET ok == {w \in StdWidths : w - s >= need} IN CHOOSE w \in ok : \A v \in ok : w <= v
DRel(ld, rd) == IF ld < rd THEN "L<R" ELSE IF ld = rd THEN "L=R" ELSE "L>R"
ElSg(l, r) == (IF ElSigned(l) THEN "s" ELSE "u") \o (IF ElSigned(r) THEN "s" ELSE "u")

JudgeElBin(e, i) ==
    LET l == AsElastic(i.lt)  r == AsElastic(i.rt)  rs == i.res_t  op == i.op
        a == J(e.l)  b == J(e.r)
        dg == PolicyDigits(op, l.d, ElSigned(l), r.d, ElSigned(r))
        sgn == PolicySigned(op, ElSigned(l), ElSigned(r))
        \* do both operands survive the cast to the result rep?  (they always do for +,-,*)
        sgq == IF sgn THEN 1 ELSE 0
        opT == IntT(SetDigitsW(MaxI2(dg, MaxI2(l.narrowest.w, r.narrowest.w) - sgq), sgq), sgq)
        narrowed == Gt(Abs(a), ElMax(TDigits(opT))) \/ Gt(Abs(b), ElMax(TDigits(opT)))
        cls == <<"ElBin", op, ElSg(l, r), DRel(l.d, r.d), IF narrowed THEN "operand_narrowed" ELSE "operands_fit">>
    IN
    IF ~InDeclared(a, l.d, ElSigned(l)) \/ ~InDeclared(b, r.d, ElSigned(r)) THEN [d |-> "skip", nt |-> FALSE, cls |-> cls]
    ELSE IF op \in {"div", "mod"} /\ IsZero(b) THEN [d |-> "skip", nt |-> FALSE, cls |-> cls]
    \* C05 fixes neither the digit count nor the signedness of the result type, only that the exact result is
    \* returned and lies in the range the result type declares; so the result type's own D and signedness are
    \* used (PolicyDigits/PolicySigned above document the rule and drive the lattice generator)
    ELSE IF rs.k # "elastic" \/ TDigits(AsIntT(InnerT(rs))) < rs.d THEN [d |-> "wrong_type", nt |-> TRUE, cls |-> cls]
    ELSE [d |-> ElDiag(e.out, J(e.res), ElExact(op, a, b), rs.d, rs.sg = 1),
          nt |-> BitLen(a) = l.d \/ BitLen(b) = r.d \/ narrowed, cls |-> cls]

\* as coded (elastic_tag/custom_operator.h + overloads.h): the operands are cast to result_tag::rep, where
\* result_tag = elastic_tag<policy digits, narrowest'> and narrowest' has the policy's signedness and the
\* wider of the two narrowest widths; the built-in operator is applied there; the value is then stored in
\* the result type's representation
\* l, r: elastic descriptors with fields d, sg, narrowest.w; lrep/rrep: operand storage types; a, b: values
ElOpType(op, l, r) ==
    LET sg == IF PolicySigned(op, ElSigned(l), ElSigned(r)) THEN 1 ELSE 0
        wn == MaxI2(l.narrowest.w, r.narrowest.w)
        dg == PolicyDigits(op, l.d, ElSigned(l), r.d, ElSigned(r))
    IN IntT(SetDigitsW(MaxI2(dg, wn - sg), sg), sg)
\* +,-,*: both operands are cast to the result representation; / and % (since the fix of the narrowed divisor):
\* both operands are cast to a representation that holds either (the one + would use), the quotient is cast back
AsCodedElValue(op, l, lrep, a, r, rrep, b) ==
    LET opT == ElOpType(op, l, r) IN
    IF op \in {"div", "mod"}
    THEN LET wT == ElOpType("add", l, r) IN CConv(CBin(op, CConv(TV(lrep, a), wT), CConv(TV(rrep, b), wT)), Promote(opT))
    ELSE CBin(op, CConv(TV(lrep, a), opT), CConv(TV(rrep, b), opT))
AsCodedElBin(e, i) ==
    LET l == AsElastic(i.lt)  r == AsElastic(i.rt)
        v == CConv(AsCodedElValue(i.op, l, AsIntT(InnerT(i.lt)), J(e.l), r, AsIntT(InnerT(i.rt)), J(e.r)), AsIntT(InnerT(i.res_t)))
    IN IF v.ub THEN e.out \in {"ub:SIGILL", "ub:SIGFPE"} ELSE e.out = "ok" /\ J(e.res) = v.v

JudgeElUn(e, i) ==   \* unary minus
    LET l == i.lt  rs == i.res_t  a == J(e.l)
        cls == <<"ElUn", "neg", IF ElSigned(l) THEN "s" ELSE "u">>
    IN IF ~InDeclared(a, l.d, ElSigned(l)) THEN [d |-> "skip", nt |-> FALSE, cls |-> cls]
       ELSE IF rs.k # "elastic" \/ TDigits(AsIntT(InnerT(rs))) < rs.d THEN [d |-> "wrong_type", nt |-> TRUE, cls |-> cls]
       ELSE [d |-> ElDiag(e.out, J(e.res), Neg(a), rs.d, rs.sg = 1), nt |-> BitLen(a) = l.d, cls |-> cls]

\* shift by a compile-time constant: << multiplies by 2^k (digits + k), >> is floor division by 2^k (digits - k)
JudgeElShift(e, i) ==
    LET l == i.lt  rs == i.res_t  a == J(e.l)  k == i.k
        dg == IF i.op = "shl" THEN l.d + k ELSE l.d - k
        want == IF i.op = "shl" THEN Shl(a, k) ELSE ShrFloor(a, k)
        cls == <<"ElShift", i.op, IF ElSigned(l) THEN "s" ELSE "u", IF a.n THEN "neg" ELSE "pos">>
    IN IF ~InDeclared(a, l.d, ElSigned(l)) THEN [d |-> "skip", nt |-> FALSE, cls |-> cls]
       ELSE IF rs.k # "elastic" \/ TDigits(AsIntT(InnerT(rs))) < rs.d THEN [d |-> "wrong_type", nt |-> TRUE, cls |-> cls]
       ELSE [d |-> ElDiag(e.out, J(e.res), want, rs.d, rs.sg = 1), nt |-> BitLen(a) = l.d, cls |-> cls]

\* scale<-k, 2>(x) = x / 2^k truncated toward zero; the result must be an elastic type that can hold it
JudgeElScale(e, i) ==
    LET l == i.lt  rs == i.res_t  a == J(e.l)  k == i.k
        want == TruncDiv(a, Pow2(k))
        cls == <<"ElScale", i.op, IF ElSigned(l) THEN "s" ELSE "u", IF a.n THEN "neg" ELSE "pos">>
    IN IF ~InDeclared(a, l.d, ElSigned(l)) THEN [d |-> "skip", nt |-> FALSE, cls |-> cls]
       ELSE [d |-> (IF e.out # "ok" THEN ElDiag(e.out, J(e.res), want, 200, TRUE) ELSE IF J(e.res) = want THEN "ok" ELSE "wrong_value"),
             nt |-> BitLen(a) > k, cls |-> cls]

\* numeric_limits of an elastic type: the symmetric range of its declared digits
JudgeElLimits(e, i) ==
    LET t == i.lt  cls == <<"ElLimits", IF ElSigned(t) THEN "s" ELSE "u">> IN
    [d |-> (IF J(e.hi) = ElMax(t.d) /\ J(e.lo) = (IF ElSigned(t) THEN Neg(ElMax(t.d)) ELSE Zero)
               /\ e.digits = t.d /\ TDigits(AsIntT(InnerT(t))) >= t.d THEN "ok" ELSE "wrong_limits"),
     nt |-> TRUE, cls |-> cls]
=============================================================================
