------------------------------ MODULE SemScaled ------------------------------
(* Ideal semantics of scaled_integer arithmetic, comparison and conversion
   (C01, C02, C03, C04).  A scaled value denotes raw * radix^exponent; the judge
   recomputes every result from the logged raw operands with unbounded integers
   and compares with the logged raw result and the *deduced* result type. *)
EXTENDS CnlTypes

Res(d, nt) == [d |-> d, nt |-> nt]
ScCls(e, i, extra) == <<e.e, i.op, InnerT(i.lt).k, InnerT(i.rt).k, RepOf(i.lt).k, RepOf(i.rt).k, extra>>
IsUbOut(out) == out \in {"ub:SIGILL", "ub:SIGFPE", "ub:SIGSEGV", "ub:SIGBUS", "ub:signal"}
OutDiag(out) == IF IsUbOut(out) THEN "ub" ELSE IF out = "timeout" THEN "timeout"
                ELSE IF out = "ok" THEN "ok" ELSE "unexpected_signal"

NonNeg(x) == IF x > 0 THEN x ELSE 0
\* |mn / md| rounded to nearest-even at p bits: <<odd mantissa, exponent>>; mn, md > 0 (quotient with two guard bits and a sticky bit)
RNEQuotS(mn, md, p) ==
    LET k0 == p + 2 + BitLen(md) - BitLen(mn)
        k == IF k0 < 0 THEN 0 ELSE k0
        num == Shl(mn, k)
        qq == FloorDiv(num, md)
        sticky == IF Mul(qq, md) = num THEN 0 ELSE 1
    IN RNE(Add(MulSmall(qq, 2), FromInt(sticky)), -k - 1, p)
RadixOK(lt, rt) == RadixOf(lt) = 0 \/ RadixOf(rt) = 0 \/ RadixOf(lt) = RadixOf(rt)
CommonRadix(lt, rt) == IF RadixOf(lt) # 0 THEN RadixOf(lt) ELSE IF RadixOf(rt) # 0 THEN RadixOf(rt) ELSE 2
ExpectedExp(op, el, er) == CASE op \in {"add", "sub"} -> MinI(el, er) [] op = "mul" -> el + er
                             [] op = "div" -> el - er [] op = "mod" -> el
BothBuiltin(lt, rt) == IsBuiltin(RepOf(lt)) /\ IsBuiltin(RepOf(rt))
\* Alignment (scale<> by radix^shift) is computed in the operand's OWN promoted representation before the
\* operator converts to the common type; elastic/wide layers widen instead.  C01/C03 are judged only where
\* the aligned operand fits that type (the properties' own domain guard).
Widening(d) == HasKind(d, "elastic") \/ HasKind(d, "wide") \/ InnerT(d).k = "multi"
AlignFits(x, d) == Widening(d) \/ InT(x, Promote(AsIntT(InnerT(d))))
\* most negative value of a two's complement rep divided by -1: excluded by C02
MinByMinusOne(a, b, d) == b = FromInt(-1) /\ InnerT(d).k = "int" /\ InnerT(d).s = 1 /\ a = TMin(AsIntT(InnerT(d)))
\* is the logged result type what the exponent / promotion rules demand?
ResTypeOK(op, lt, rt, rs) ==
    /\ rs.k = "scaled"
    /\ ExpOf(rs) = ExpectedExp(op, ExpOf(lt), ExpOf(rt))
    /\ RadixOf(rs) = CommonRadix(lt, rt)
    /\ (BothBuiltin(lt, rt) =>
          /\ IsBuiltin(rs.rep)
          /\ LET t == OpResult(op, AsIntT(RepOf(lt)), AsIntT(RepOf(rt))) IN rs.rep.w = t.w /\ rs.rep.s = t.s)

JudgeScBin(e, i) ==
    LET lt == i.lt  rt == i.rt  rs == i.res_t  op == i.op
        a == J(e.l)  b == J(e.r)
        el == ExpOf(lt)  er == ExpOf(rt)
        rdx == CommonRadix(lt, rt)
        cls == ScCls(e, i, "")
    IN
    IF ~RadixOK(lt, rt) THEN [d |-> "skip", nt |-> FALSE, cls |-> cls]
    ELSE IF ~InRaw(a, lt) \/ ~InRaw(b, rt) THEN [d |-> "bad_event", nt |-> FALSE, cls |-> cls]
    ELSE IF ~ResTypeOK(op, lt, rt, rs) THEN [d |-> "wrong_type", nt |-> TRUE, cls |-> cls]
    ELSE IF op \in {"add", "sub"} THEN
        LET em == MinI(el, er)
            aa == Mul(a, PowSmall(rdx, el - em))
            bb == Mul(b, PowSmall(rdx, er - em))
            x == IF op = "add" THEN Add(aa, bb) ELSE Sub(aa, bb)
        IN IF ~InRaw(aa, rs) \/ ~InRaw(bb, rs) \/ ~InRaw(x, rs) \/ ~AlignFits(aa, lt) \/ ~AlignFits(bb, rt)
           THEN [d |-> "skip", nt |-> FALSE, cls |-> cls]
           ELSE [d |-> (IF e.out # "ok" THEN OutDiag(e.out) ELSE IF J(e.res) = x THEN "ok" ELSE "wrong_value"),
                 nt |-> el # er \/ ~IsZero(x), cls |-> cls]
    ELSE IF op = "mul" THEN
        LET x == Mul(a, b)
        IN IF ~InRaw(a, rs) \/ ~InRaw(b, rs) \/ ~InRaw(x, rs) THEN [d |-> "skip", nt |-> FALSE, cls |-> cls]
           ELSE [d |-> (IF e.out # "ok" THEN OutDiag(e.out) ELSE IF J(e.res) = x THEN "ok" ELSE "wrong_value"),
                 nt |-> ~IsZero(x), cls |-> cls]
    ELSE \* div, mod: the rep operator applied directly to the reps
        IF IsZero(b) \/ MinByMinusOne(a, b, lt) THEN [d |-> "skip", nt |-> FALSE, cls |-> cls]
        ELSE IF BothBuiltin(lt, rt) THEN
            LET v == CBin(op, TV(AsIntT(RepOf(lt)), a), TV(AsIntT(RepOf(rt)), b))
            IN IF v.ub THEN [d |-> "skip", nt |-> FALSE, cls |-> cls]
               ELSE [d |-> (IF e.out # "ok" THEN OutDiag(e.out) ELSE IF J(e.res) = v.v THEN "ok" ELSE "wrong_value"),
                     nt |-> ~IsZero(TruncRem(a, b)), cls |-> cls]
        ELSE IF RoundingOf(lt) # "native" \/ RoundingOf(rt) # "native" THEN [d |-> "skip", nt |-> FALSE, cls |-> cls]
        ELSE LET x == IF op = "div" THEN TruncDiv(a, b) ELSE TruncRem(a, b)
             IN IF ~InRaw(x, rs) THEN [d |-> "skip", nt |-> FALSE, cls |-> cls]
                ELSE [d |-> (IF e.out # "ok" THEN OutDiag(e.out) ELSE IF J(e.res) = x THEN "ok" ELSE "wrong_value"),
                      nt |-> ~IsZero(TruncRem(a, b)), cls |-> cls]

\* x op= b against static_cast<Lhs>(a op b): same outcome class, same stored representation (the binary operator and the
\* conversion are judged on their own events; where the reference itself is undefined or signals, the event is skipped)
JudgeScAssign(e, i) ==
    LET cls == ScCls(e, i, "") IN
    IF e.refout # "ok" THEN [d |-> "skip", nt |-> FALSE, cls |-> cls]
    ELSE [d |-> (IF e.out # "ok" THEN OutDiag(e.out) ELSE IF e.res = e.ref THEN "ok" ELSE "assign_differs_from_operator"),
          nt |-> TRUE, cls |-> cls]

JudgeScUn(e, i) ==
    LET lt == i.lt  rs == i.res_t  a == J(e.l)  x == Neg(a)  cls == ScCls(e, i, "") IN
    IF ~InRaw(a, lt) THEN [d |-> "bad_event", nt |-> FALSE, cls |-> cls]
    ELSE IF ~(rs.k = "scaled" /\ ExpOf(rs) = ExpOf(lt) /\ RadixOf(rs) = RadixOf(lt)
              /\ (IsBuiltin(RepOf(lt)) => IsBuiltin(rs.rep) /\ LET t == Promote(AsIntT(RepOf(lt))) IN rs.rep.w = t.w /\ rs.rep.s = t.s))
         THEN [d |-> "wrong_type", nt |-> TRUE, cls |-> cls]
    ELSE IF ~InRaw(x, rs) THEN [d |-> "skip", nt |-> FALSE, cls |-> cls]
    ELSE [d |-> (IF e.out # "ok" THEN OutDiag(e.out) ELSE IF J(e.res) = x THEN "ok" ELSE "wrong_value"),
          nt |-> ~IsZero(a), cls |-> cls]

\* (a/b)*b + a%b == a, evaluated by the library
JudgeScIdent(e, i) ==
    LET lt == i.lt  rt == i.rt  a == J(e.l)  b == J(e.r)  cls == ScCls(e, i, "") IN
    IF ~RadixOK(lt, rt) \/ IsZero(b) \/ MinByMinusOne(a, b, lt) THEN [d |-> "skip", nt |-> FALSE, cls |-> cls]
    ELSE IF RoundingOf(lt) # "native" \/ RoundingOf(rt) # "native" THEN [d |-> "skip", nt |-> FALSE, cls |-> cls]
    ELSE IF BothBuiltin(lt, rt) /\ CBin("div", TV(AsIntT(RepOf(lt)), a), TV(AsIntT(RepOf(rt)), b)).ub
         THEN [d |-> "skip", nt |-> FALSE, cls |-> cls]
    ELSE IF BothBuiltin(lt, rt) /\ RepOf(lt).s # RepOf(rt).s THEN [d |-> "skip", nt |-> FALSE, cls |-> cls]
    ELSE [d |-> (IF e.out # "ok" THEN OutDiag(e.out) ELSE IF e.c = 1 THEN "ok" ELSE "identity_broken"),
          nt |-> ~IsZero(TruncRem(a, b)), cls |-> cls]

\* quotient(a, b) = make_scaled_integer(make_fraction(a, b)): the true quotient truncated toward zero at the result
\* resolution, in a type wide enough that no input can overflow it
JudgeScQuot(e, i) ==
    LET lt == i.lt  rt == i.rt  rs == i.res_t  a == J(e.l)  b == J(e.r)
        sh == ExpOf(lt) - ExpOf(rt) - ExpOf(rs)
        want == IF sh >= 0 THEN TruncDiv(Shl(a, sh), b) ELSE TruncDiv(a, Shl(b, -sh))
        \* widest possible quotient: |a| maximal, |b| = 1
        widest == IF sh >= 0 THEN Shl(RawMax(lt), sh) ELSE ShrTrunc(RawMax(lt), -sh)
        cls == ScCls(e, i, "")
        \* built-in reps of different signedness follow the usual arithmetic conversions (C12), not the value reading
        mixed == BothBuiltin(lt, rt) /\ RepOf(lt).s # RepOf(rt).s
    IN IF RadixOf(lt) # 2 \/ RadixOf(rt) # 2 \/ IsZero(b) \/ ~InRaw(a, lt) \/ ~InRaw(b, rt) \/ mixed THEN [d |-> "skip", nt |-> FALSE, cls |-> cls]
       ELSE IF rs.k # "scaled" \/ RadixOf(rs) # 2 THEN [d |-> "wrong_type", nt |-> TRUE, cls |-> cls]
       ELSE IF ~InRaw(widest, rs) THEN [d |-> "not_wide_enough", nt |-> TRUE, cls |-> cls]
       ELSE [d |-> (IF e.out # "ok" THEN OutDiag(e.out) ELSE IF J(e.res) = want THEN "ok" ELSE "wrong_value"),
             nt |-> ~IsZero(TruncRem(IF sh >= 0 THEN Shl(a, sh) ELSE a, IF sh >= 0 THEN b ELSE Shl(b, -sh))), cls |-> cls]

\* comparisons: six results <<lt, le, gt, ge, eq, ne>>
CmpVector(c) == <<IF c < 0 THEN 1 ELSE 0, IF c <= 0 THEN 1 ELSE 0, IF c > 0 THEN 1 ELSE 0,
                  IF c >= 0 THEN 1 ELSE 0, IF c = 0 THEN 1 ELSE 0, IF c # 0 THEN 1 ELSE 0>>
JudgeScCmp(e, i) ==
    LET lt == i.lt  rt == i.rt  a == J(e.l)  b == J(e.r)
        el == ExpOf(lt)  er == ExpOf(rt)  em == MinI(el, er)
        rdx == CommonRadix(lt, rt)
        aa == Mul(a, PowSmall(rdx, el - em))
        bb == Mul(b, PowSmall(rdx, er - em))
        cls == ScCls(e, i, "")
    IN
    IF ~RadixOK(lt, rt) THEN [d |-> "skip", nt |-> FALSE, cls |-> cls]
    ELSE IF ~InRaw(a, lt) \/ ~InRaw(b, rt) THEN [d |-> "bad_event", nt |-> FALSE, cls |-> cls]
    ELSE IF BothBuiltin(lt, rt) THEN
        \* the operand with the larger exponent is re-expressed at the smaller one in its promoted rep type;
        \* the reps are then compared by the built-in operator (C03's carve-out for mixed signedness)
        LET tl == IF el > er THEN Promote(AsIntT(RepOf(lt))) ELSE AsIntT(RepOf(lt))
            tr == IF er > el THEN Promote(AsIntT(RepOf(rt))) ELSE AsIntT(RepOf(rt))
        IN IF ~InT(aa, tl) \/ ~InT(bb, tr) THEN [d |-> "skip", nt |-> FALSE, cls |-> cls]
           ELSE LET u == UAC(tl, tr)
                    c == Cmp(WrapT(aa, u), WrapT(bb, u))
                IN [d |-> (IF e.out # "ok" THEN OutDiag(e.out) ELSE IF e.c = CmpVector(c) THEN "ok" ELSE "wrong_order"),
                    nt |-> el # er \/ tl.s # tr.s, cls |-> cls]
    ELSE IF ~AlignFits(aa, lt) \/ ~AlignFits(bb, rt) THEN [d |-> "skip", nt |-> FALSE, cls |-> cls]
    ELSE \* wrappers: by value
        [d |-> (IF e.out # "ok" THEN OutDiag(e.out) ELSE IF e.c = CmpVector(Cmp(aa, bb)) THEN "ok" ELSE "wrong_order"),
         nt |-> TRUE, cls |-> cls]

\* conversions (native rounding): exact when representable, else truncation toward zero at the destination resolution
JudgeScConv(e, i) ==
    LET st == i.lt  dt == i.rt  cls == ScCls(e, i, "") IN
    IF RoundingOf(st) # "native" \/ RoundingOf(dt) # "native" THEN [d |-> "skip", nt |-> FALSE, cls |-> cls]
    ELSE IF st.k # "float" /\ dt.k # "float" THEN
        IF ~RadixOK(st, dt) THEN
            \* different radices (binary <-> decimal): the value a * rs^es as a multiple of rd^ed, truncated toward zero.
            \* The library multiplies first and divides afterwards, every step in the SOURCE representation: events whose
            \* intermediate products leave that type are outside what the property's "destination can represent it" guards
            \* (the same-radix case has its own finding for this) and are skipped.
            LET a == J(e.l)  es == ExpOf(st)  ed == ExpOf(dt)  rs == RadixOf(st)  rd == RadixOf(dt)
                m1 == Mul(a, PowSmall(rs, NonNeg(es)))
                num == Mul(m1, PowSmall(rd, NonNeg(-ed)))
                den == Mul(PowSmall(rs, NonNeg(-es)), PowSmall(rd, NonNeg(ed)))
                x == TruncDiv(num, den)
                srcT == AsIntT(InnerT(st))
                fitsSrc == InT(m1, srcT) /\ InT(num, srcT)
                inDest == Le(Mul(RawMin(dt), den), num) /\ Le(num, Mul(RawMax(dt), den))
                cls3 == ScCls(e, i, "mixed_radix")
            IN IF ~InRaw(a, st) THEN [d |-> "bad_event", nt |-> FALSE, cls |-> cls3]
               ELSE IF ~inDest \/ ~fitsSrc THEN [d |-> "skip", nt |-> FALSE, cls |-> cls3]
               ELSE [d |-> (IF e.out # "ok" THEN OutDiag(e.out) ELSE IF J(e.res) = x THEN "ok" ELSE "wrong_value"),
                     nt |-> TRUE, cls |-> cls3]
        ELSE LET a == J(e.l)  es == ExpOf(st)  ed == ExpOf(dt)  rdx == CommonRadix(st, dt)
                 x == IF es >= ed THEN Mul(a, PowSmall(rdx, es - ed)) ELSE TruncDiv(a, PowSmall(rdx, ed - es))
                 \* the source value itself must lie within the destination's range (not just its truncation)
                 inDest == IF es >= ed THEN InRaw(x, dt)
                           ELSE Le(Mul(RawMin(dt), PowSmall(rdx, ed - es)), a) /\ Le(a, Mul(RawMax(dt), PowSmall(rdx, ed - es)))
                 \* known deviation class: the scaling is computed in the SOURCE representation before the cast
                 srcOv == es > ed /\ ~AlignFits(x, st)
                 \* the scale factor radix^|es - ed| itself does not fit the promoted SOURCE representation (the shift count
                 \* reaches its width / the power overflows whatever the value is)
                 factorOv == es # ed /\ ~Widening(st) /\ ~InT(PowSmall(rdx, IF es > ed THEN es - ed ELSE ed - es), Promote(AsIntT(InnerT(st))))
                 cls2 == ScCls(e, i, IF srcOv THEN "scaled_in_source_rep_overflows"
                                     ELSE IF factorOv THEN "scale_factor_exceeds_source_rep" ELSE "")
             IN IF ~InRaw(a, st) THEN [d |-> "bad_event", nt |-> FALSE, cls |-> cls]
                ELSE IF ~inDest THEN [d |-> "skip", nt |-> FALSE, cls |-> cls]
                ELSE [d |-> (IF e.out # "ok" THEN OutDiag(e.out) ELSE IF J(e.res) = x THEN "ok" ELSE "wrong_value"),
                      nt |-> es # ed, cls |-> cls2]
    ELSE IF st.k = "float" /\ dt.k # "float" THEN
        IF e.l.c # "fin" THEN [d |-> "skip", nt |-> FALSE, cls |-> cls]
        ELSE IF RadixOf(dt) \notin {0, 2} THEN
            \* a radix that is not 2: x = M * 2^fe as a multiple of r^ed, truncated toward zero (exact rational arithmetic)
            LET m == FMag(e.l)  fe == e.l.e  ed == ExpOf(dt)  r == RadixOf(dt)
                num == Mul(Shl(m, NonNeg(fe)), PowSmall(r, NonNeg(-ed)))
                den == Mul(Pow2(NonNeg(-fe)), PowSmall(r, NonNeg(ed)))
                mag == TruncDiv(num, den)
                x == IF e.l.n = 1 THEN Neg(mag) ELSE mag
                snum == IF e.l.n = 1 THEN Neg(num) ELSE num
                inDest == Le(Mul(RawMin(dt), den), snum) /\ Le(snum, Mul(RawMax(dt), den))
                cls3 == ScCls(e, i, "decimal_float")
            IN IF fe > 300 \/ fe < -1200 \/ ~inDest THEN [d |-> "skip", nt |-> FALSE, cls |-> cls3]
               ELSE [d |-> (IF e.out # "ok" THEN OutDiag(e.out) ELSE IF J(e.res) = x THEN "ok" ELSE "wrong_value"),
                     nt |-> TRUE, cls |-> cls3]
        ELSE LET m == FMag(e.l)  fe == e.l.e  ed == ExpOf(dt)
                 mag == IF fe >= ed THEN Shl(m, fe - ed) ELSE ShrTrunc(m, ed - fe)
                 x == IF e.l.n = 1 THEN Neg(mag) ELSE mag
             IN IF fe - ed > 300 \/ ~InRaw(x, dt) THEN [d |-> "skip", nt |-> FALSE, cls |-> cls]
                ELSE [d |-> (IF e.out # "ok" THEN OutDiag(e.out) ELSE IF J(e.res) = x THEN "ok" ELSE "wrong_value"),
                      nt |-> fe < ed, cls |-> cls]
    ELSE IF st.k # "float" /\ dt.k = "float" THEN
        IF RadixOf(st) \notin {0, 2} THEN
            \* a radix that is not 2: a * r^es correctly rounded (nearest even) -- an integer for es >= 0, else the rational a / r^-es
            LET a == J(e.l)  es == ExpOf(st)  p == dt.p  r == RadixOf(st)
                want == IF IsZero(a) THEN <<Zero, 0>>
                        ELSE IF es >= 0 THEN RNE(Mul(Abs(a), PowSmall(r, es)), 0, p)
                        ELSE RNEQuotS(Abs(a), PowSmall(r, -es), p)
                top == BitLen(want[1]) + want[2]
                cls3 == ScCls(e, i, "decimal_float")
            IN IF ~InRaw(a, st) THEN [d |-> "bad_event", nt |-> FALSE, cls |-> cls3]
               ELSE IF ~IsZero(a) /\ (top > FloatEmax(p) - 2 \/ top - 1 < FloatEminNormal(p) + 2) THEN [d |-> "skip", nt |-> FALSE, cls |-> cls3]
               ELSE [d |-> (IF e.out # "ok" THEN OutDiag(e.out)
                            ELSE IF e.res.c = "fin" /\ NormDyadic(FMag(e.res), e.res.e) = want
                                    /\ (IsZero(a) \/ (e.res.n = 1) = a.n) THEN "ok" ELSE "wrong_value"),
                     nt |-> TRUE, cls |-> cls3]
        ELSE LET a == J(e.l)  es == ExpOf(st)  p == dt.p
                 want == RNE(Abs(a), es, p)
                 top == BitLen(want[1]) + want[2]      \* value < 2^top
             IN IF ~InRaw(a, st) THEN [d |-> "bad_event", nt |-> FALSE, cls |-> cls]
                ELSE IF ~IsZero(a) /\ (top > FloatEmax(p) \/ top - 1 < FloatEminNormal(p)) THEN [d |-> "skip", nt |-> FALSE, cls |-> cls]
                ELSE [d |-> (IF e.out # "ok" THEN OutDiag(e.out)
                             ELSE IF e.res.c = "fin" /\ NormDyadic(FMag(e.res), e.res.e) = want
                                     /\ (IsZero(a) \/ (e.res.n = 1) = a.n) THEN "ok" ELSE "wrong_value"),
                      nt |-> BitLen(a) > p, cls |-> cls]
    ELSE [d |-> "skip", nt |-> FALSE, cls |-> cls]

JudgeScRoundTrip(e, i) ==
    LET cls == ScCls(e, i, "") IN
    [d |-> (IF e.out # "ok" THEN OutDiag(e.out) ELSE IF e.res = e.l /\ e.res2 = e.l THEN "ok" ELSE "wrong_value"),
     nt |-> TRUE, cls |-> cls]
=============================================================================
