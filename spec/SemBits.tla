------------------------------- MODULE SemBits -------------------------------
(* C18: bit and digit-counting utilities, defined from the bit length and the
   residues of unbounded integers (the C++20 <bit> definitions), for a W-bit
   value.  Ceil2OfZeroIsZero is the one documented deviation. *)
EXTENDS CnlTypes

RECURSIVE PopM(_)
PopSmall(x) == LET RECURSIVE P(_) P(v) == IF v = 0 THEN 0 ELSE (v % 2) + P(v \div 2) IN P(x)
PopM(m) == IF m = <<>> THEN 0 ELSE PopSmall(Head(m)) + PopM(Tail(m))
Pop(x) == PopM(x.m)
AllOnes(w) == Sub(Pow2(w), One)
Clz(x, w) == w - BitLen(x)
Clo(x, w) == w - BitLen(Sub(AllOnes(w), x))
Ctz(x, w) == IF IsZero(x) THEN w ELSE TrailingZeros(x)
Cto(x, w) == IF x = AllOnes(w) THEN w ELSE TrailingZeros(Add(x, One))
Rotl(x, s, w) == LET r == s % w IN ModPow2(Add(Shl(x, r), ShrTrunc(x, w - r)), w)
Rotr(x, s, w) == Rotl(x, w - (s % w), w)
IsPow2(x) == Pop(x) = 1
Floor2(x) == IF IsZero(x) THEN Zero ELSE Pow2(BitLen(x) - 1)
Ceil2OfZeroIsZero == Zero
Ceil2(x) == IF IsZero(x) THEN Ceil2OfZeroIsZero ELSE IF IsPow2(x) THEN x ELSE Pow2(BitLen(x))
\* value bits of the two's complement form: bit length of v for v >= 0 and of -v-1 for v < 0
UsedDigits(v) == IF v.n THEN BitLen(Sub(Neg(v), One)) ELSE BitLen(v)

B2I(b) == IF b THEN 1 ELSE 0
BitsDiag(out, ok) == IF out \in {"ub:SIGILL", "ub:SIGFPE", "ub:SIGSEGV", "ub:SIGBUS", "ub:signal"} THEN "ub"
                     ELSE IF out # "ok" THEN "unexpected_signal" ELSE IF ok THEN "ok" ELSE "wrong_value"

\* unsigned value x of width w with every <bit> function's result in e.f (record of small integers)
JudgeBitsU(e, i) ==
    LET w == i.lt.w  x == J(e.x)  f == e.f  cls == <<"BitsU", w>> IN
    [d |-> BitsDiag(e.out,
              /\ f.clz = Clz(x, w) /\ f.clo = Clo(x, w) /\ f.ctz = Ctz(x, w) /\ f.cto = Cto(x, w)
              /\ f.pop = Pop(x) /\ f.ispow2 = B2I(IsPow2(x)) /\ J(e.floor2) = Floor2(x) /\ f.log2p1 = BitLen(x)
              /\ f.rb = Clz(x, w) /\ f.used = w - Clz(x, w) /\ f.ud = BitLen(x) /\ f.lb = w - BitLen(x)
              /\ f.tb = (IF IsZero(x) THEN 0 ELSE TrailingZeros(x))
              \* ceil2 is only defined when the result is representable (as std::bit_ceil)
              /\ (BitLen(Ceil2(x)) > w \/ (e.ceil2_out = "ok" /\ J(e.ceil2) = Ceil2(x)))),
     nt |-> IsZero(x) \/ x = AllOnes(w) \/ IsPow2(x) \/ IsPow2(Add(x, One)), cls |-> cls]

\* signed value v of width w
JudgeBitsS(e, i) ==
    LET w == i.lt.w  v == J(e.x)  f == e.f  ud == UsedDigits(v)  cls == <<"BitsS", w>> IN
    [d |-> BitsDiag(e.out,
              /\ f.rsb = (w - 1) - ud /\ f.rb = (w - 1) - ud /\ f.used = ud /\ f.ud = ud /\ f.lb = (w - 1) - ud
              /\ f.tb = (IF IsZero(v) THEN 0 ELSE TrailingZeros(Abs(v)))),
     nt |-> IsZero(v) \/ v = FromInt(-1) \/ v = MinOf(w, TRUE) \/ v = MaxOf(w, TRUE) \/ IsPow2(Abs(v)), cls |-> cls]

\* used_digits / leading_bits of a CNL integer wrapper with D digits: used_digits is the bit length of the value bits
\* (of v for v >= 0, of -v-1 for v < 0), leading_bits the rest of the digits
JudgeBitsW(e, i) ==
    LET D == i.lt.digits  v == J(e.x)  ud == UsedDigits(v)  cls == <<"BitsW", i.lt.k, IF v.n THEN "neg" ELSE "pos">> IN
    [d |-> BitsDiag(e.out, e.f.ud = ud /\ e.f.lb = D - ud), nt |-> v.n \/ BitLen(v) > 64, cls |-> cls]

\* rotations of an unsigned value by s in 0..2w
JudgeRot(e, i) ==
    LET w == i.lt.w  x == J(e.x)  cls == <<"Rot", w>> IN
    [d |-> BitsDiag(e.out, J(e.rotl) = Rotl(x, e.s, w) /\ J(e.rotr) = Rotr(x, e.s, w)),
     nt |-> e.s % w = 0 \/ e.s >= w, cls |-> cls]
=============================================================================
