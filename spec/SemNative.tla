------------------------------ MODULE SemNative ------------------------------
(* C12: wrappers whose tags request built-in behaviour compute what the bare
   integer expression computes.  CxxInt is the oracle for BOTH the wrapper
   expression and the bare expression recorded next to it (value and promoted
   result representation); compound assignment is the binary operator followed by
   conversion to the left type; ++/-- add or subtract one; the documented kernels
   equal their hand-written shift-and-operate references.  Inputs on which the
   bare expression is undefined are outside the domain. *)
EXTENDS CnlTypes

NtUb(out) == out \in {"ub:SIGILL", "ub:SIGFPE", "ub:SIGSEGV", "ub:SIGBUS", "ub:signal"}
ExactOpN(op, a, b) == CASE op = "add" -> Add(a, b) [] op = "sub" -> Sub(a, b) [] op = "mul" -> Mul(a, b) [] OTHER -> a
NtOp(op, x, y) == IF op \in {"shl", "shr"} THEN CShift(op, x, y) ELSE CBin(op, x, y)

\* binary operator: wres / wt from the wrapper expression, bres / bt from the bare expression
JudgeNtBin(e, i) ==
    LET x == TV(AsIntT(i.lt), J(e.l))  y == TV(AsIntT(i.rt), J(e.r))
        v == NtOp(i.op, x, y)
        cls == <<"NtBin", i.nest, i.op, SgnChar(i.lt) \o SgnChar(i.rt)>>
    IN IF v.ub THEN [d |-> "skip", nt |-> FALSE, cls |-> cls]
       ELSE [d |-> (IF NtUb(e.wout) THEN "ub" ELSE IF e.wout # "ok" THEN "unexpected_signal"
                    ELSE IF e.bout # "ok" THEN "bare_expression_failed"
                    ELSE IF i.wt.w # v.t.w \/ i.wt.s # v.t.s THEN "wrong_type"
                    ELSE IF J(e.wres) # v.v THEN "wrong_value"
                    ELSE IF J(e.bres) # v.v \/ i.bt.w # v.t.w \/ i.bt.s # v.t.s THEN "oracle_disagrees_with_compiler"
                    ELSE "ok"),
             nt |-> ~InT(ExactOpN(i.op, x.v, y.v), IntT(WINT - 1, 1)), cls |-> cls]

JudgeNtCmp(e, i) ==
    LET x == TV(AsIntT(i.lt), J(e.l))  y == TV(AsIntT(i.rt), J(e.r))
        want == <<CCmp("lt", x, y), CCmp("le", x, y), CCmp("gt", x, y), CCmp("ge", x, y), CCmp("eq", x, y), CCmp("ne", x, y)>>
        b2s(k) == IF k = 1 THEN "T" ELSE "F"
        cls == <<"NtCmp", i.nest, "cmp", SgnChar(i.lt) \o SgnChar(i.rt)>>
    IN [d |-> (IF e.wout # "ok" THEN (IF NtUb(e.wout) THEN "ub" ELSE "unexpected_signal")
               ELSE IF [k \in 1..6 |-> b2s(e.wc[k])] # want THEN "wrong_value"
               ELSE IF [k \in 1..6 |-> b2s(e.bc[k])] # want THEN "oracle_disagrees_with_compiler" ELSE "ok"),
        nt |-> i.lt.s # i.rt.s, cls |-> cls]

JudgeNtUn(e, i) ==
    LET x == TV(AsIntT(i.lt), J(e.l))
        v == CUn(i.op, x)
        cls == <<"NtUn", i.nest, i.op, SgnChar(i.lt)>>
    IN IF v.ub THEN [d |-> "skip", nt |-> FALSE, cls |-> cls]
       ELSE [d |-> (IF NtUb(e.wout) THEN "ub" ELSE IF e.wout # "ok" THEN "unexpected_signal"
                    ELSE IF i.wt.w # v.t.w \/ i.wt.s # v.t.s THEN "wrong_type"
                    ELSE IF J(e.wres) # v.v THEN "wrong_value"
                    ELSE IF J(e.bres) # v.v THEN "oracle_disagrees_with_compiler" ELSE "ok"),
             nt |-> TRUE, cls |-> cls]

\* a op= b  ==  a = static_cast<A>(a op b);   ++a / a++ / --a / a--  ==  a +/- 1
JudgeNtAssign(e, i) ==
    LET x == TV(AsIntT(i.lt), J(e.l))
        y == IF i.op \in {"preinc", "postinc", "predec", "postdec"} THEN TV(IntT(WINT, 1), One) ELSE TV(AsIntT(i.rt), J(e.r))
        bop == CASE i.op \in {"preinc", "postinc"} -> "add" [] i.op \in {"predec", "postdec"} -> "sub" [] OTHER -> i.op
        v == NtOp(bop, x, y)
        after == CConv(v, AsIntT(i.lt))
        ret == IF i.op \in {"postinc", "postdec"} THEN x.v ELSE after.v
        cls == <<"NtAssign", i.nest, i.op, SgnChar(i.lt)>>
    IN IF v.ub THEN [d |-> "skip", nt |-> FALSE, cls |-> cls]
       ELSE [d |-> (IF NtUb(e.wout) THEN "ub" ELSE IF e.wout # "ok" THEN "unexpected_signal"
                    ELSE IF J(e.wafter) # after.v \/ J(e.wret) # ret THEN "wrong_value"
                    ELSE IF J(e.bafter) # after.v THEN "oracle_disagrees_with_compiler" ELSE "ok"),
             nt |-> TRUE, cls |-> cls]

\* documented fixed-point kernels on int32 reps a, b (exponent -16): results as raw int64 values
\* the six comparison results as one number: < 1, <= 2, > 4, >= 8, == 16, != 32
CmpMask(x, y) == FromInt((IF Lt(x, y) THEN 1 ELSE 0) + (IF Le(x, y) THEN 2 ELSE 0) + (IF Gt(x, y) THEN 4 ELSE 0)
                         + (IF Ge(x, y) THEN 8 ELSE 0) + (IF x = y THEN 16 ELSE 0) + (IF x # y THEN 32 ELSE 0))
IncDecOps == {"incdec_preinc", "incdec_postinc", "incdec_predec", "incdec_postdec"}
\* ++/-- on a scaled_integer: the representation moves by one unit of value (b = radix^-exponent); the expression yields the
\* new value (pre) or the old one (post)
JudgeNtIncDec(e, i) ==
    LET a == J(e.l)  b == J(e.r)
        after == IF i.op \in {"incdec_preinc", "incdec_postinc"} THEN Add(a, b) ELSE Sub(a, b)
        ret == IF i.op \in {"incdec_preinc", "incdec_predec"} THEN after ELSE a
        cls == <<"NtKernel", i.op, i.type>>
    IN [d |-> (IF e.wout # "ok" THEN (IF NtUb(e.wout) THEN "ub" ELSE "unexpected_signal")
               ELSE IF J(e.wres) # after THEN "wrong_value"
               ELSE IF J(e.ret) # ret THEN "wrong_value_returned"
               ELSE IF J(e.bres) # after \/ J(e.want_ret) # ret THEN "oracle_disagrees_with_compiler" ELSE "ok"),
        nt |-> TRUE, cls |-> cls]
JudgeNtKernel(e, i) ==
    IF i.op \in IncDecOps THEN JudgeNtIncDec(e, i) ELSE
    LET a == J(e.l)  b == J(e.r)
        want == CASE i.op = "multiply_widen" -> Mul(a, b)
                  [] i.op = "square" -> Mul(a, a)
                  [] i.op = "average" -> Add(a, b)                    \* rep of (a + b) >> 1_c at exponent -17
                  [] i.op = "mixed_add" -> Add(a, Shl(b, 4))          \* exponent -8 + exponent -4
                  [] i.op = "mixed_cmp_fine_coarse" -> CmpMask(a, Shl(b, 4))      \* a*2^-8 ? b*2^-4
                  [] i.op = "mixed_cmp_coarse_fine" -> CmpMask(Shl(b, 4), a)
                  \* % and / do not align their operands: remainder of the representations at the dividend's exponent, quotient of
                  \* the representations at the difference of the exponents (l = the 2^-8 operand / divisor, r = the 2^-4 or bare operand)
                  [] i.op \in {"mixed_mod_coarse_fine", "int_mod_scaled", "mixed_modassign"} -> TruncRem(b, a)
                  [] i.op = "mixed_mod_fine_coarse" -> TruncRem(a, b)
                  [] i.op = "mixed_div_coarse_fine" -> TruncDiv(b, a)
                  [] i.op = "neg_elastic_unsigned" -> Neg(a)                  \* -x of an unsigned 32-digit elastic representation: -(int64)rep
        cls == <<"NtKernel", i.op>>
    IN IF (i.op = "mixed_add" /\ (~InT(want, IntT(32, 1)) \/ ~InT(Shl(b, 4), IntT(32, 1))))
          \/ (i.op \in {"mixed_cmp_fine_coarse", "mixed_cmp_coarse_fine"} /\ ~InT(Shl(b, 4), IntT(32, 1)))
       THEN [d |-> "skip", nt |-> FALSE, cls |-> cls]
       ELSE [d |-> (IF e.wout # "ok" THEN (IF NtUb(e.wout) THEN "ub" ELSE "unexpected_signal")
                    ELSE IF J(e.wres) # want \/ e.wexp # i.exp THEN "wrong_value"
                    ELSE IF J(e.bres) # want THEN "oracle_disagrees_with_compiler" ELSE "ok"),
             nt |-> BitLen(want) > 31 \/ i.op \in {"mixed_cmp_fine_coarse", "mixed_cmp_coarse_fine"}, cls |-> cls]
=============================================================================
