---------------------------- MODULE AsCodedExp2 ----------------------------
(* As-coded model of cnl::exp2(scaled_integer<Rep, power<E>>) for E < 0 (include/cnl/_impl/scaled_integer/math.h):
     floored = Rep(floor(x));  if (floored <= E) return rep 1;
     xf      = fractional part as an all-fraction unsigned number (W fraction bits, W = width of Rep)
     p       = xf*(a1 + xf*(a2 + ... xf*(a6 + a7*xf))), every product truncated back to W fraction bits
     result  = rep( (p >> (W + E - floored)) + (1 << (floored - E)) )
   The coefficients are the ones rounding_conversion<> produces from the doubles in the header,
   (trunc(d * 2^(W+1)) + 1) >> 1, computed once with exact rational arithmetic (python fractions) for W = 8, 16, 32.
   `floored <= Exponent` used to compare a Rep with an int: for Rep = uint32_t the exponent was converted to unsigned,
   the test was always true and the function returned rep 1 for every input (finding EXP2-UINT32-REP, fixed: an unsigned
   floored is never below the negative exponent).
   The judge uses the model to bind the exp2 findings: a rejected event is a listed finding only if its result equals
   this model's prediction. *)
EXTENDS CnlTypes

B2(hi, lo) == Add(Shl(FromInt(hi), 16), FromInt(lo))
Exp2Coeffs(W) ==
    CASE W = 8 -> <<FromInt(177), FromInt(61), FromInt(14), FromInt(2), Zero, Zero, Zero>>
      [] W = 16 -> <<FromInt(45426), FromInt(15743), FromInt(3638), FromInt(630), FromInt(88), FromInt(9), One>>
      [] OTHER -> <<B2(45426, 6160), B2(15743, 31218), B2(3637, 38273), B2(630, 4209), B2(87, 63346), B2(9, 26603), B2(1, 26800)>>

\* one Horner level: U( (xf * s) / 2^W )  -- the product is exact in the widened type, the conversion truncates
Level(xf, s, W) == ModPow2(ShrTrunc(Mul(xf, s), W), W)

Exp2Poly(xf, W) ==
    LET a == Exp2Coeffs(W)
        t7 == Level(a[7], xf, W)
        t6 == Level(xf, Add(a[6], t7), W)
        t5 == Level(xf, Add(a[5], t6), W)
        t4 == Level(xf, Add(a[4], t5), W)
        t3 == Level(xf, Add(a[3], t4), W)
        t2 == Level(xf, Add(a[2], t3), W)
    IN Level(xf, Add(a[1], t2), W)

\* result representation, or "ub" where a shift count leaves its range
\* raw: representation of x; t: Rep as a CxxInt type; E < 0
AsCodedExp2(raw, t, E) ==
    LET W == t.w  nb == -E
        n == ShrFloor(raw, nb)                                    \* floored
        \* (before the fix the test was `floored <= Exponent` on the raw types: unsigned -- hence always true -- for uint32_t)
        leE == IF t.s = 0 THEN FALSE ELSE Le(n, FromInt(E))
    IN IF leE THEN [ub |-> FALSE, v |-> One]
       ELSE IF ~IsSmall(n) THEN [ub |-> TRUE, v |-> Zero]
       ELSE LET ni == ToInt(n)
                f == Sub(raw, Shl(n, nb))                         \* fractional part, nb bits
                xf == IF W >= nb THEN Shl(f, W - nb) ELSE ShrTrunc(f, nb - W)
                p == Exp2Poly(xf, W)
                c == W + E - ni
                up == ni - E
            IN IF c < 0 \/ c >= MaxI2(W, WINT) \/ up >= MaxI2(W, WINT) - t.s THEN [ub |-> TRUE, v |-> Zero]
               ELSE [ub |-> FALSE, v |-> WrapT(Add(ShrTrunc(p, c), Pow2(up)), t)]
=============================================================================
