-------------------------- MODULE AsCodedOverflow --------------------------
(* As-coded model of cnl's overflow detection, transcribed statement by
   statement from
     include/cnl/_impl/overflow/is_overflow.h        (portable predicates)
     include/cnl/_impl/overflow/builtin_overflow.h   (intrinsic path + polarity guess)
     include/cnl/_impl/overflow/custom_operator.h    (dispatch: positive ? ... : negative ? ... : op)
   Every C++ sub-expression of a predicate is evaluated through CxxInt, with
   short-circuit &&, so that undefined behaviour INSIDE the checker
   (lowest()/-1, max()+rhs at the wrong width, an over-wide shift) is an outcome
   the model exhibits.

   Used twice: (A) model-checked exhaustively on scaled-down machines against
   the ideal semantics (MC_Overflow), where its deviations are the design-level
   counterexamples; (C) evaluated at the real widths on recorded events, where it
   must reproduce the code's observable outcome exactly -- that is what lets the
   judge tell a *known* deviation of the unchanged library from a new one. *)
EXTENDS CxxInt

\* outcome of detection + operation, before the tag's reaction is applied
OVal(t, v) == [k |-> "val", t |-> t, v |-> v]
OSig(k, t) == [k |-> k, t |-> t, v |-> Zero]     \* k \in {"pos","neg","ub","unreachable"}

IntLit(n) == TV(IntT(WINT, 1), FromInt(n))
TMaxV(t) == TV(t, TMax(t))
TMinV(t) == TV(t, TMin(t))
PosDigits(t) == TDigits(t)                                   \* overflow_digits<T, positive>
NegDigits(t) == IF t.s = 1 THEN TDigits(t) ELSE 0            \* overflow_digits<T, negative>
MaxI(a, b) == IF a > b THEN a ELSE b
\* C++ conditional  c ? a : b  over tri-state booleans
CIf(c, a, b) == IF c = "UB" THEN "UB" ELSE IF c = "T" THEN a ELSE b

\* is_overflow<Op, polarity>{}(lhs, rhs) -> "T" / "F" / "UB"
IsOvPos(op, x, y) ==
  LET r == OpResult(op, x.t, y.t)  z == TV(x.t, Zero)  zy == TV(y.t, Zero) IN
  CASE op = "add" ->
         CAnd(Tri(MaxI(PosDigits(x.t), PosDigits(y.t)) + 1 > PosDigits(r)),
         CAnd(CCmp("gt", x, z), CAnd(CCmp("gt", y, zy),
              CCmp("gt", CConv(x, r), CBin("sub", TMaxV(r), y)))))
    [] op = "sub" ->
         CAnd(Tri(MaxI(PosDigits(x.t), NegDigits(y.t)) + 1 > PosDigits(r)),
         CAnd(CCmp("lt", y, zy),
              CCmp("gt", x, CBin("add", TMaxV(r), y))))
    [] op = "mul" ->
         CAnd(Tri(PosDigits(x.t) + PosDigits(y.t) > PosDigits(r)),
              CIf(CCmp("gt", x, z),
                  CAnd(CCmp("gt", y, zy), CCmp("lt", CBin("div", TMaxV(r), y), x)),
                  CAnd(CCmp("lt", y, zy), CCmp("gt", CBin("div", TMaxV(r), y), x))))
    [] op = "div" ->
         IF x.t.s = 1 THEN CAnd(CCmp("eq", y, IntLit(-1)), CCmp("eq", x, TMinV(r))) ELSE "F"
    [] op = "shl" ->
         CIf(CCmp("gt", x, IntLit(0)),
             CIf(CCmp("gt", y, IntLit(0)),
                 CIf(CCmp("lt", y, IntLit(PosDigits(r))),
                     CCmp("ne", CShift("shr", x, CBin("sub", IntLit(PosDigits(r)), y)), IntLit(0)),
                     "T"),
                 "F"),
             "F")

IsOvNeg(op, x, y) ==
  LET r == OpResult(op, x.t, y.t)  z == TV(x.t, Zero)  zy == TV(y.t, Zero) IN
  CASE op = "add" ->
         CAnd(Tri(MaxI(PosDigits(x.t), PosDigits(y.t)) + 1 > PosDigits(r)),
         CAnd(CCmp("lt", x, z), CAnd(CCmp("lt", y, zy),
              CCmp("lt", CConv(x, r), CBin("sub", TMinV(r), y)))))
    [] op = "sub" ->
         CAnd(Tri(MaxI(PosDigits(x.t), PosDigits(y.t)) + 1 > PosDigits(r)),
         CAnd(CCmp("ge", y, IntLit(0)),
              CCmp("lt", x, CBin("add", TMinV(r), y))))
    [] op = "mul" ->
         CAnd(Tri(PosDigits(x.t) + PosDigits(y.t) > PosDigits(r)),
              CIf(CCmp("lt", x, z),
                  CAnd(CCmp("gt", y, zy), CCmp("gt", CBin("div", TMinV(r), y), x)),
                  CAnd(CCmp("lt", y, zy), CAnd(CCmp("ne", y, CConv(IntLit(-1), y.t)), CCmp("lt", CBin("div", TMinV(r), y), x)))))
    [] op = "div" -> "F"
    [] op = "shl" ->
         IF x.t.s = 0 THEN "F"
         ELSE CIf(CCmp("lt", x, IntLit(0)),
                  CIf(CCmp("gt", y, IntLit(0)),
                      CIf(CCmp("le", y, IntLit(PosDigits(r))),
                          CCmp("ne", CShift("shr", x, CBin("sub", IntLit(PosDigits(r)), y)), IntLit(-1)),
                          "T"),
                      "F"),
                  "F")

NativeBin(op, x, y) == IF op = "shl" THEN CShift("shl", x, y) ELSE CBin(op, x, y)

\* generic custom_operator: positive ? ... : negative ? ... : Operator{}(lhs, rhs)
PortableBin(op, x, y) ==
    LET r == OpResult(op, x.t, y.t)  p == IsOvPos(op, x, y) IN
    IF p = "UB" THEN OSig("ub", r)
    ELSE IF p = "T" THEN OSig("pos", r)
    ELSE LET n == IsOvNeg(op, x, y) IN
         IF n = "UB" THEN OSig("ub", r)
         ELSE IF n = "T" THEN OSig("neg", r)
         ELSE IF op = "shl" /\ IsZero(x.v) THEN OVal(r, Zero)          \* (lhs == Lhs{0}) ? result{} : lhs << rhs
         ELSE LET v == NativeBin(op, x, y) IN IF v.ub THEN OSig("ub", r) ELSE OVal(r, v.v)

\* measure_polarity and the guesses of builtin_overflow.h
Pol(x) == Sign(x.v)
IntrinsicBin(op, x, y) ==
    LET r == OpResult(op, x.t, y.t)  e == ExactArith(op, x.v, y.v)     \* __builtin_*_overflow: infinite precision
    IN IF InT(e, r) THEN OVal(r, e)
       ELSE LET g == CASE op = "add" -> Pol(y) [] op = "sub" -> -Pol(y) [] op = "mul" -> Pol(x) * Pol(y)
            IN IF g = 1 THEN OSig("pos", r) ELSE IF g = -1 THEN OSig("neg", r) ELSE OSig("unreachable", r)

AsCodedBin(path, op, x, y) ==
    IF path = "intrinsic" /\ op \in {"add", "sub", "mul"} THEN IntrinsicBin(op, x, y) ELSE PortableBin(op, x, y)

\* unary minus (same on both paths)
AsCodedNeg(x) ==
    LET r == OpResult1("neg", x.t)
        p == IF r.s = 1 THEN CCmp("lt", x, CUn("neg", TMaxV(r))) ELSE "F"
    IN IF p = "UB" THEN OSig("ub", r)
       ELSE IF p = "T" THEN OSig("pos", r)
       ELSE IF r.s = 0 /\ ~IsZero(x.v) THEN OSig("neg", r)
       ELSE LET v == CUn("neg", x) IN IF v.ub THEN OSig("ub", r) ELSE OVal(r, v.v)

\* integer -> integer conversion to type d (same on both paths)
AsCodedConv(x, d) ==
    LET s == x.t
        p == CAnd(Tri(PosDigits(d) < PosDigits(s)), CCmp("gt", x, CConv(TMaxV(d), s)))
    IN IF p = "UB" THEN OSig("ub", d)
       ELSE IF p = "T" THEN OSig("pos", d)
       ELSE LET n == CAnd(Tri(NegDigits(d) < NegDigits(s)), CCmp("lt", x, CConv(TMinV(d), s)))
            IN IF n = "UB" THEN OSig("ub", d)
               ELSE IF n = "T" THEN OSig("neg", d)
               ELSE OVal(d, CConv(x, d).v)

\* does a recorded outcome (out string, result value) equal the as-coded prediction o under `tag`?
\* native: overflow_operator<Op, native_overflow_tag, Polarity> : Operator  -- performs the bare operation
MatchesAsCoded(o, tag, out, res, nativeV) ==
    CASE o.k = "ub" -> out \in {"ub:SIGILL", "ub:SIGFPE", "ub:SIGSEGV", "ub:SIGBUS"}
      [] o.k = "unreachable" -> out = "unreachable"
      [] o.k = "val" -> out = "ok" /\ res = o.v
      [] o.k \in {"pos", "neg"} ->
           CASE tag = "saturated" -> out = "ok" /\ res = (IF o.k = "pos" THEN TMax(o.t) ELSE TMin(o.t))
             [] tag = "throwing" -> out = (IF o.k = "pos" THEN "throw:positive overflow" ELSE "throw:negative overflow")
             [] tag = "trapping" -> out = (IF o.k = "pos" THEN "trap:positive overflow" ELSE "trap:negative overflow")
             [] tag = "undefined" -> out = "unreachable"
             [] tag = "native" -> IF nativeV.ub THEN out \in {"ub:SIGILL", "ub:SIGFPE"} ELSE out = "ok" /\ res = nativeV.v
=============================================================================
