---------------------------- MODULE AsCodedRConv ----------------------------
(* As-coded model of the narrowing conversions under a rounding tag, transcribed from
     include/cnl/_impl/rounding/convert_operator.h          (floating point -> built-in integer)
     include/cnl/_impl/scaled_integer/convert_operator.h    (floating point -> scaled_integer; finer -> coarser scaled_integer)
   Floating-point sub-expressions are evaluated exactly and rounded to nearest-even at the precision the C++
   expression has (long double for the nearest/integer case, the source type otherwise); integer sub-expressions go
   through CxxInt (signed overflow = UB, unsigned = wrap).  Used by the judge to tell the known rounding findings
   (bias added in floating point, bias overflow, truncation instead of floor, binary shift for decimal scales)
   from any new deviation: a rejected event is a listed finding only if it equals this model's prediction. *)
EXTENDS CnlTypes

\* a finite float as <<signed odd-normalised mantissa (BigInt), exponent>>; zero = <<Zero, 0>>
FVal(f) == <<IF f.n = 1 THEN Neg(FMag(f)) ELSE FMag(f), f.e>>
\* x + y exactly, as a dyadic
DyAdd(x, y) == LET lo == MinI(x[2], y[2]) IN <<Add(Shl(x[1], x[2] - lo), Shl(y[1], y[2] - lo)), lo>>
\* round a dyadic to p significand bits (nearest even)
DyRound(x, p) == LET r == RNE(Abs(x[1]), x[2], p) IN <<IF x[1].n THEN Neg(r[1]) ELSE r[1], r[2]>>
\* truncation toward zero to an integer
DyTrunc(x) == IF x[2] >= 0 THEN Shl(x[1], x[2]) ELSE ShrTrunc(x[1], -x[2])
DyIsNeg(x) == x[1].n
DyPow2(k) == <<One, k>>
\* x * 2^k
DyScale(x, k) == <<x[1], x[2] + k>>
\* static_cast<Int>(float): truncation; out of range is undefined
CastToInt(x, t) == LET v == DyTrunc(x) IN IF InT(v, t) THEN TV(t, v) ELSE TVUB(t)
\* floor() as coded: x_whole = Source(Dest(x)); x_whole - ((x < 0) && (x < x_whole)); then static_cast<Dest>
DyIntegral(x) == x[2] >= 0 \/ ModPow2(Abs(x[1]), -x[2]) = Zero
FloorAsCoded(x, t) == LET w == CastToInt(x, t)
                      IN IF w.ub THEN w
                         ELSE IF DyIsNeg(x) /\ ~DyIntegral(x)
                              THEN (IF InT(Sub(w.v, One), t) THEN TV(t, Sub(w.v, One)) ELSE TVUB(t))
                         ELSE w

\* floating point x (precision p) -> built-in integer t under `tag`
FloatToInt(tag, x, p, pl, t) ==      \* pl = precision of long double (64 on the real machine)
    CASE tag = "nearest" -> CastToInt(DyRound(DyAdd(x, IF DyIsNeg(x) THEN <<FromInt(-1), -1>> ELSE <<One, -1>>), pl), t)
      [] tag = "tie_to_pos_inf" ->
           LET y == DyRound(DyAdd(x, <<One, -1>>), p)
               f == FloorAsCoded(y, t)
           IN f                                           \* static_cast<Dest>(floor(from + 0.5)) -- floor returns Source, exact
      [] tag = "neg_inf" -> FloorAsCoded(x, t)
      [] OTHER -> CastToInt(x, t)

\* floating point x (precision p) -> scaled_integer<t, power<E, 2>> under `tag`.
\*   nearest:                 static_cast<result>(x +- half)
\*   tie_to_pos_inf, neg_inf: floor of (x + half) resp. x in units of the result -- truncated = static_cast<result>(y);
\*                            (y < 0 && y < static_cast<Input>(truncated)) ? from_rep<result>(ResultRep(to_rep(truncated) - 1)) : truncated
\*   (the cast back to the floating-point type is exact: the truncated representation has no more significant bits than y)
IntLitR(n) == TV(IntT(WINT, 1), FromInt(n))
FloorScaledAsCoded(y, t, E) ==
    LET u == DyScale(y, -E)
        w == CastToInt(u, t)
    IN IF w.ub THEN w
       ELSE IF DyIsNeg(y) /\ ~DyIntegral(u) THEN CConv(CBin("sub", w, IntLitR(1)), t)
       ELSE w
FloatToScaled(tag, x, p, t, E) ==
    LET half == DyPow2(E - 1)
        y == CASE tag = "nearest" -> DyRound(DyAdd(x, IF DyIsNeg(x) THEN <<FromInt(-1), E - 1>> ELSE half), p)
               [] tag = "tie_to_pos_inf" -> DyRound(DyAdd(x, half), p)
               [] OTHER -> x
    IN IF tag \in {"tie_to_pos_inf", "neg_inf"} THEN FloorScaledAsCoded(y, t, E) ELSE CastToInt(DyScale(y, -E), t)

\* finer scaled_integer<st, power<Es, r>> raw a -> coarser scaled_integer<dt, power<Ed, r>> (Ed > Es) under `tag`;
\* ft = representation of the type the call actually returns (neg_inf returns from_rep<result>(promoted value), whose
\* representation is the promoted source type, not the destination's)
ScaledToScaled(tag, a, st, Es, dt, Ed, r, ft) ==
    LET k == Ed - Es
        from == TV(st, a)
        \* half(): static_cast<input>(from_rep<result>(1)) / 2  -- 1 * r^k in the result rep, cast to the input rep
        unit == CConv(CBin("mul", TV(dt, One), TV(Promote(dt), PowSmall(r, k))), st)
        half == CBin("div", unit, IntLitR(2))
        divk(x) == CBin("div", x, TV(Promote(x.t), PowSmall(r, k)))      \* scale<-k>: division by r^k in the promoted type
    IN CASE tag = "nearest" ->
              LET nonneg == CCmp("ge", from, IntLitR(0))
                  biased == IF nonneg = "T" THEN CBin("add", from, half) ELSE CBin("sub", from, half)
              IN CConv(divk(biased), dt)
         [] tag = "tie_to_pos_inf" -> CConv(CShift("shr", CBin("add", from, half), IntLitR(k)), dt)
         [] tag = "neg_inf" -> CConv(CShift("shr", from, IntLitR(k)), ft)
         [] OTHER -> CConv(divk(from), dt)

MatchesRConv(v, out, res) == IF v.ub THEN out \in {"ub:SIGILL", "ub:SIGFPE"} ELSE out = "ok" /\ res = v.v
=============================================================================
