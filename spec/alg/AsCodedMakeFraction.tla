------------------------- MODULE AsCodedMakeFraction -------------------------
(* As-coded model of cnl::_impl::make_fraction<int_t>(FloatingPoint d) (include/cnl/_impl/fraction/make_fraction.h):
   the mediant (Stern-Brocot) search with the "jump" acceleration, transcribed statement by statement.
   Every floating-point sub-expression is evaluated exactly and rounded to nearest-even at the precision of the
   FloatingPoint type (gradual underflow included); every integer sub-expression goes through CxxInt (signed
   overflow and out-of-range float->int casts are undefined; CNL_ASSERT reaches unreachable()).
   The judge uses it to bind the known make_fraction findings: a rejected FrFromFloat event is a listed finding only if
   its outcome (components, or ub / unreachable) equals this model's prediction for the unchanged algorithm. *)
EXTENDS SemFraction

----------------------------------------------------------------------------
\* floating-point values: [c |-> "fin", m |-> signed BigInt, e |-> Int] (value m * 2^e), or c \in {"pinf","ninf","nan"}
Fin(m, e) == [c |-> "fin", m |-> m, e |-> e]
FZero == Fin(Zero, 0)
PInf == [c |-> "pinf", m |-> Zero, e |-> 0]
NInf == [c |-> "ninf", m |-> Zero, e |-> 0]
NaN == [c |-> "nan", m |-> Zero, e |-> 0]
IsFin(x) == x.c = "fin"
FIsZero(x) == IsFin(x) /\ IsZero(x.m)
FNeg(x) == IsFin(x) /\ x.m.n
Top(x) == BitLen(x.m) + x.e                                  \* |x| < 2^Top(x)   (x finite, non-zero)

\* round the exact dyadic m * 2^e to precision p with minimum normal exponent emin (nearest, ties to even)
FRound(m, e, p) ==
    IF IsZero(m) THEN FZero
    ELSE LET a == Abs(m)  bl == BitLen(a)
             q == FloatEminNormal(p) - p + 1                 \* exponent of the smallest subnormal
             sh == MaxI2(bl - p, q - e)
         IN IF sh <= 0 THEN Fin(m, e)
            ELSE LET qq == ShrTrunc(a, sh)  rem == ModPow2(a, sh)  half == Pow2(sh - 1)
                     odd == ~IsZero(qq) /\ BitM(qq.m, 0) = 1
                     up == Gt(rem, half) \/ (rem = half /\ odd)
                     r == IF up THEN Add(qq, One) ELSE qq
                 IN IF IsZero(r) THEN FZero ELSE Fin(IF m.n THEN Neg(r) ELSE r, e + sh)

FFromInt(v, p) == FRound(v, 0, p)

\* x + y for finite x, y of precision p
FAddFin(x, y, p) ==
    IF FIsZero(x) THEN y ELSE IF FIsZero(y) THEN x
    ELSE IF Top(y) + p + 3 < Top(x) THEN x                   \* y below a quarter ulp of x: the sum rounds back to x
    ELSE IF Top(x) + p + 3 < Top(y) THEN y
    ELSE LET lo == MinI(x.e, y.e) IN FRound(Add(Shl(x.m, x.e - lo), Shl(y.m, y.e - lo)), lo, p)
FNegate(x) == CASE x.c = "fin" -> Fin(Neg(x.m), x.e) [] x.c = "pinf" -> NInf [] x.c = "ninf" -> PInf [] OTHER -> NaN
FAdd(x, y, p) ==
    IF x.c = "nan" \/ y.c = "nan" THEN NaN
    ELSE IF IsFin(x) /\ IsFin(y) THEN FAddFin(x, y, p)
    ELSE IF IsFin(x) THEN y ELSE IF IsFin(y) THEN x
    ELSE IF x.c = y.c THEN x ELSE NaN
FSub(x, y, p) == FAdd(x, FNegate(y), p)
FMul(x, y, p) ==
    IF x.c = "nan" \/ y.c = "nan" THEN NaN
    ELSE IF IsFin(x) /\ IsFin(y) THEN FRound(Mul(x.m, y.m), x.e + y.e, p)
    ELSE IF FIsZero(x) \/ FIsZero(y) THEN NaN
    ELSE LET nx == IF IsFin(x) THEN x.m.n ELSE x.c = "ninf"  ny == IF IsFin(y) THEN y.m.n ELSE y.c = "ninf"
         IN IF nx # ny THEN NInf ELSE PInf
FDiv(x, y, p) ==
    IF x.c = "nan" \/ y.c = "nan" THEN NaN
    ELSE IF IsFin(x) /\ IsFin(y) THEN
        IF FIsZero(y) THEN (IF FIsZero(x) THEN NaN ELSE IF x.m.n THEN NInf ELSE PInf)
        ELSE IF FIsZero(x) THEN FZero
        ELSE LET qv == RNEQuot(Abs(x.m), Abs(y.m), p)
             IN Fin(IF x.m.n # y.m.n THEN Neg(qv[1]) ELSE qv[1], qv[2] + x.e - y.e)
    ELSE IF IsFin(x) THEN FZero
    ELSE IF IsFin(y) THEN (IF (x.c = "ninf") # y.m.n THEN NInf ELSE PInf)
    ELSE NaN

\* three-way comparison of finite values: -1, 0, 1
FCmpFin(x, y) ==
    IF FIsZero(x) /\ FIsZero(y) THEN 0
    ELSE IF FIsZero(x) THEN (IF y.m.n THEN 1 ELSE -1)
    ELSE IF FIsZero(y) THEN (IF x.m.n THEN -1 ELSE 1)
    ELSE IF x.m.n # y.m.n THEN (IF x.m.n THEN -1 ELSE 1)
    ELSE LET s == IF x.m.n THEN -1 ELSE 1 IN
         IF Top(x) # Top(y) THEN (IF Top(x) < Top(y) THEN -s ELSE s)
         ELSE LET lo == MinI(x.e, y.e) IN Cmp(Shl(x.m, x.e - lo), Shl(y.m, y.e - lo))
Rank(x) == CASE x.c = "ninf" -> -2 [] x.c = "pinf" -> 2 [] OTHER -> 0
FLess(x, y) == IF x.c = "nan" \/ y.c = "nan" THEN FALSE
               ELSE IF IsFin(x) /\ IsFin(y) THEN FCmpFin(x, y) < 0 ELSE Rank(x) < Rank(y)
FEq(x, y) == IF x.c = "nan" \/ y.c = "nan" THEN FALSE
             ELSE IF IsFin(x) /\ IsFin(y) THEN FCmpFin(x, y) = 0 ELSE x.c = y.c
FLeq(x, y) == FLess(x, y) \/ FEq(x, y)

\* static_cast<Int>(x): truncation; NaN, infinities and out-of-range values are undefined
FToInt(x, t) ==
    IF ~IsFin(x) THEN TVUB(t)
    ELSE LET v == IF x.e >= 0 THEN (IF x.e > 200 /\ ~IsZero(x.m) THEN Pow2(300) ELSE Shl(x.m, x.e)) ELSE ShrTrunc(x.m, -x.e)
         IN IF InT(v, t) THEN TV(t, v) ELSE TVUB(t)

----------------------------------------------------------------------------
\* outcome records
Ok(n, d) == [out |-> "ok", n |-> n, d |-> d]
UB == [out |-> "ub", n |-> Zero, d |-> Zero]
Unreachable == [out |-> "unreachable", n |-> Zero, d |-> Zero]
Hang == [out |-> "timeout", n |-> Zero, d |-> Zero]

FracToF(n, d, p) == FDiv(FFromInt(n, p), FFromInt(d, p), p)      \* static_cast<FloatingPoint>(fraction)

\* fn(fars, f, nears, n) for the side `f` (far) / `n` (near); returns [out, done, fn, fd]
\*   out = "ok" | "ub" | "unreachable"; done = the lambda's return value; (fn, fd) = updated far fraction
FnJump(x, p, t, ffn, ffd, nn, nd) ==
    LET mxI == TMax(t)  mxF == FFromInt(mxI, p)
        F(v) == FFromInt(v, p)
        dividend == FSub(FMul(x, F(ffd), p), F(ffn), p)
        divisor == FSub(F(nn), FMul(x, F(nd), p), p)
        n0 == FDiv(dividend, divisor, p)
    IN IF ~FLeq(n0, mxF) THEN [out |-> "unreachable", done |-> FALSE, fn |-> ffn, fd |-> ffd]
       ELSE LET cond1 == FLess(mxF, FAdd(F(ffd), FMul(F(nd), n0, p), p))
                m1 == CBin("sub", TV(t, mxI), TV(t, ffd))
                n1 == IF cond1 THEN (IF m1.ub THEN TVUB(t) ELSE FToInt(FDiv(F(m1.v), F(nd), p), t)) ELSE FToInt(n0, t)
            IN IF n1.ub THEN [out |-> "ub", done |-> FALSE, fn |-> ffn, fd |-> ffd]
               ELSE LET prod == CBin("mul", TV(t, nn), n1)
                    IN IF prod.ub THEN [out |-> "ub", done |-> FALSE, fn |-> ffn, fd |-> ffd]
                       ELSE LET cond2 == FLess(mxF, FAdd(F(ffn), F(prod.v), p))
                                m2 == CBin("sub", CBin("sub", TV(t, mxI), TV(t, ffn)), TV(t, nn))
                                n2 == IF cond2 THEN (IF m2.ub THEN TVUB(t) ELSE FToInt(FDiv(F(m2.v), F(nn), p), t)) ELSE n1
                            IN IF n2.ub THEN [out |-> "ub", done |-> FALSE, fn |-> ffn, fd |-> ffd]
                               ELSE IF IsZero(n2.v) THEN [out |-> "ok", done |-> TRUE, fn |-> ffn, fd |-> ffd]
                               ELSE LET a1 == CBin("add", TV(t, ffn), CBin("mul", n2, TV(t, nn)))
                                        a2 == CBin("add", TV(t, ffd), CBin("mul", n2, TV(t, nd)))
                                    IN IF a1.ub \/ a2.ub THEN [out |-> "ub", done |-> FALSE, fn |-> ffn, fd |-> ffd]
                                       ELSE LET fn2 == WrapT(a1.v, t)  fd2 == WrapT(a2.v, t)
                                            IN [out |-> "ok", done |-> FEq(FracToF(fn2, fd2, p), x), fn |-> fn2, fd |-> fd2]

\* the for(;;) loop; s = [ln, ld, rn, rd, lefts, rights]
RECURSIVE MFLoop(_, _, _, _, _)
MFLoop(x, p, t, s, fuel) ==
    IF fuel = 0 THEN Hang
    ELSE
    LET ut == IntT(t.w, 0)
        sn == CBin("add", TV(t, s.ln), TV(t, s.rn))
        sd == CBin("add", TV(t, s.ld), TV(t, s.rd))
    IN IF sn.ub \/ sd.ub THEN UB
       ELSE LET mn == WrapT(sn.v, ut)  md == WrapT(sd.v, ut)                 \* fraction<uint_t> mid
                mnI == WrapT(mn, t)  mdI == WrapT(md, t)                     \* converted to int_t
            IN IF mnI.n \/ mdI.n THEN Unreachable                           \* CNL_ASSERT(static_cast<int_t>(mid.x) >= 0)
               ELSE LET midq == FracToF(mn, md, p) IN
                    IF FLess(midq, x) THEN
                        \* fn(lefts, left, rights, right)
                        IF s.lefts < 3 THEN MFLoop(x, p, t, [s EXCEPT !.ln = mnI, !.ld = mdI, !.lefts = s.lefts + 1, !.rights = 0], fuel - 1)
                        ELSE LET r == FnJump(x, p, t, s.ln, s.ld, s.rn, s.rd) IN
                             IF r.out = "ub" THEN UB ELSE IF r.out = "unreachable" THEN Unreachable
                             ELSE IF r.done THEN Ok(r.fn, r.fd)
                             ELSE MFLoop(x, p, t, [s EXCEPT !.ln = r.fn, !.ld = r.fd, !.lefts = s.lefts + 1, !.rights = 0], fuel - 1)
                    ELSE IF FLess(x, midq) THEN
                        IF s.rights < 3 THEN MFLoop(x, p, t, [s EXCEPT !.rn = mnI, !.rd = mdI, !.rights = s.rights + 1, !.lefts = 0], fuel - 1)
                        ELSE LET r == FnJump(x, p, t, s.rn, s.rd, s.ln, s.ld) IN
                             IF r.out = "ub" THEN UB ELSE IF r.out = "unreachable" THEN Unreachable
                             ELSE IF r.done THEN Ok(r.fn, r.fd)
                             ELSE MFLoop(x, p, t, [s EXCEPT !.rn = r.fn, !.rd = r.fd, !.rights = s.rights + 1, !.lefts = 0], fuel - 1)
                    ELSE Ok(mnI, mdI)

\* make_fraction<int_t>(x) for x >= 0 (x finite, precision p, component type t)
MFPositive(x, p, t) ==
    LET mxF == FFromInt(TMax(t), p) IN
    IF ~FLeq(x, mxF) THEN Unreachable
    ELSE LET l0 == FToInt(x, t) IN
         IF l0.ub THEN UB
         ELSE LET r0 == CBin("add", l0, TV(IntT(WINT, 1), One)) IN
              IF r0.ub THEN UB
              ELSE LET rn0 == WrapT(r0.v, t) IN
                   IF FEq(FFromInt(l0.v, p), x) THEN Ok(l0.v, One)
                   ELSE IF FEq(FFromInt(rn0, p), x) THEN Ok(rn0, One)
                   ELSE MFLoop(x, p, t, [ln |-> l0.v, ld |-> One, rn |-> rn0, rd |-> One, lefts |-> 0, rights |-> 0], 4000)

\* the public entry: negative inputs go through -make_fraction(-d), converted back to fraction<int_t>
AsCodedMakeFraction(f, p, t) ==
    LET mag == Fin(FMag(f), f.e) IN
    IF f.n = 1 /\ ~IsZero(FMag(f))
    THEN LET r == MFPositive(mag, p, t) IN
         IF r.out # "ok" THEN r
         ELSE LET ng == CUn("neg", TV(t, r.n)) IN IF ng.ub THEN UB ELSE Ok(WrapT(ng.v, t), r.d)
    ELSE MFPositive(mag, p, t)

MatchesMakeFraction(r, out, resn, resd) ==
    CASE r.out = "ok" -> out = "ok" /\ resn = r.n /\ resd = r.d
      [] r.out = "ub" -> out \in {"ub:SIGILL", "ub:SIGFPE"}
      [] r.out = "unreachable" -> out = "unreachable"
      [] OTHER -> out = "timeout"
=============================================================================
