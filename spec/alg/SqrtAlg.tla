---- MODULE SqrtAlg ----
(* As-coded model of cnl::sqrt(Integer) (include/cnl/_impl/cmath/sqrt.h): the
   binary digit-by-digit loop on a W-digit non-negative integer.  Digits = W
   value bits (signed int of W+1 bits, or unsigned of W bits). *)
EXTENDS Integers, TLC
CONSTANTS W          \* digits_v<Integer>
MaxV == 2^W - 1
(* --fair algorithm sqrt
variables x \in 0..MaxV, root = 0, bit = 2^((W - 1) - ((W - 1) % 2)), num = x, hi = 0;
begin
  Skip: while bit > num do bit := bit \div 4; end while;
  Loop: while bit # 0 do
          hi := IF root + bit > hi THEN root + bit ELSE hi;
          if num >= root + bit then
            num := num - (root + bit);
            root := (root \div 2) + bit;
          else
            root := root \div 2;
          end if;
          bit := bit \div 4;
        end while;
end algorithm; *)
\* BEGIN TRANSLATION
VARIABLES pc, x, root, bit, num, hi

vars == << pc, x, root, bit, num, hi >>

Init == (* Global variables *)
        /\ x \in 0..MaxV
        /\ root = 0
        /\ bit = 2^((W - 1) - ((W - 1) % 2))
        /\ num = x
        /\ hi = 0
        /\ pc = "Skip"

Skip == /\ pc = "Skip"
        /\ IF bit > num
              THEN /\ bit' = (bit \div 4)
                   /\ pc' = "Skip"
              ELSE /\ pc' = "Loop"
                   /\ bit' = bit
        /\ UNCHANGED << x, root, num, hi >>

Loop == /\ pc = "Loop"
        /\ IF bit # 0
              THEN /\ hi' = (IF root + bit > hi THEN root + bit ELSE hi)
                   /\ IF num >= root + bit
                         THEN /\ num' = num - (root + bit)
                              /\ root' = (root \div 2) + bit
                         ELSE /\ root' = (root \div 2)
                              /\ num' = num
                   /\ bit' = (bit \div 4)
                   /\ pc' = "Loop"
              ELSE /\ pc' = "Done"
                   /\ UNCHANGED << root, bit, num, hi >>
        /\ x' = x

(* Allow infinite stuttering to prevent deadlock on termination. *)
Terminating == pc = "Done" /\ UNCHANGED vars

Next == Skip \/ Loop
           \/ Terminating

Spec == /\ Init /\ [][Next]_vars
        /\ WF_vars(Next)

Termination == <>(pc = "Done")

\* END TRANSLATION
IsFloorSqrt == pc = "Done" => (root * root <= x /\ x < (root + 1) * (root + 1))
NoIntermediateOverflow == hi <= MaxV /\ root <= MaxV /\ num <= MaxV /\ num >= 0
====
