--------------------------- MODULE AsCodedToChars ---------------------------
(* As-coded model of cnl::to_chars for scaled_integer:
     include/cnl/_impl/charconv/descale.h          descale<Significand, 10, false>
     include/cnl/_impl/scaled_integer/to_chars.h   solve_fixed, solve_scientific, the lexicographic choice in
                                                   to_chars_positive, the two fill() routines and their asserts
   The output buffer is abstracted to a write cursor.  Used (A) in MC_ToChars: for every (significand digits,
   decimal exponent, capacity) either an internal assertion fails or every write stays inside the buffer and the
   result has the promised shape; (C) by the judge: a recorded `unreachable` outcome is the listed known finding
   only if this model predicts the failing assertion for that very (value, capacity). *)
EXTENDS BigInt

Max2(a, b) == IF a > b THEN a ELSE b
Min2(a, b) == IF a < b THEN a ELSE b
AbsI(a) == IF a < 0 THEN -a ELSE a
RECURSIVE NumDigitsI(_)
NumDigitsI(n) == IF n < 10 THEN 1 ELSE 1 + NumDigitsI(n \div 10)
\* length of to_chars_static<10>(exponent + nsd - 1)
ExpChars(nsd, e) == LET x == e + nsd - 1 IN NumDigitsI(AbsI(x)) + (IF x < 0 THEN 1 ELSE 0)

SolveSci(nsd, e, cap) ==
    LET unb == nsd + 1 + 1 + ExpChars(nsd, e)
        tr == Max2(0, unb - cap)
    IN [nsd |-> nsd - tr, nc |-> unb - tr]

SolveFixed(nsd, e, cap) ==
    LET nid == nsd + e IN
    IF nid > cap THEN [nsd |-> 0, nc |-> 0, lz |-> 0, tz |-> 0, radix |-> FALSE]
    ELSE LET lz == Max2(0, -nid)
             hr == e < 0
             tz == Max2(0, e)
             unb == nsd + lz + (IF hr THEN 1 ELSE 0) + tz
             tr == Max2(0, unb - cap)
         IN [nsd |-> nsd - tr, nc |-> unb - tr, lz |-> lz, tz |-> tz, radix |-> hr]

LexGt(a1, a2, b1, b2) == a1 > b1 \/ (a1 = b1 /\ a2 > b2)

\* fill(fixed): hi = one past the highest cell written, neg = a std::copy with last < first, out = returned cursor
FillFixed(nsd, e, cap, s) ==
    LET n == Max2(0, nsd + Min2(0, e))
        out1 == n
        r == IF s.tz > 0 THEN [out |-> out1 + s.tz, neg |-> FALSE]
             ELSE IF out1 < cap
                  THEN LET o2 == out1 + (IF s.radix THEN 1 ELSE 0) + s.lz
                           cnt == s.nsd - n
                       IN [out |-> o2 + cnt, neg |-> cnt < 0]
                  ELSE [out |-> out1, neg |-> FALSE]
    IN [hi |-> Max2(out1, r.out), neg |-> r.neg, out |-> r.out]

FillSci(nsd, e, cap, s) ==
    LET cnt == s.nsd - 1
        out == 1 + 1 + cnt + 1 + ExpChars(nsd, e)
    IN [hi |-> Max2(2, out), neg |-> cnt < 0, out |-> out]

\* to_chars_positive: which layout, do its assertions hold, where does it write
Layout(nsd, e, cap) ==
    LET sc == SolveSci(nsd, e, cap)  fx == SolveFixed(nsd, e, cap) IN
    IF LexGt(sc.nsd, -sc.nc, fx.nsd, -fx.nc)
    THEN LET f == FillSci(nsd, e, cap, sc)
         IN [kind |-> "sci", assert_ok |-> sc.nsd > 0 /\ f.out = sc.nc /\ f.out <= cap, hi |-> f.hi, neg |-> f.neg, len |-> f.out]
    ELSE IF fx.nsd > 0
    THEN LET f == FillFixed(nsd, e, cap, fx)
         IN [kind |-> "fixed", assert_ok |-> f.out = fx.nc /\ f.out <= cap, hi |-> f.hi, neg |-> f.neg, len |-> f.out]
    ELSE [kind |-> "too_large", assert_ok |-> TRUE, hi |-> 0, neg |-> FALSE, len |-> 0]

\* descale<Significand, 10, false>(input, power<InExponent, InRadix>): significand limited to sigMax (positive) /
\* -sigMax (negative); returns <<significand, decimal exponent, terminated>>; fuel bounds the non-terminating case
\* division of a BigInt by a small positive integer (single-limb long division: fast)
SmallDiv(x, d) == Mk(x.n, DivSmallM(x.m, d)[1])
SmallRemIsZero(x, d) == DivSmallM(x.m, d)[2] = 0
RECURSIVE DescaleNeg(_, _, _, _, _, _)
DescaleNeg(sig, ex, inExp, inRadix, lim, fuel) ==         \* InExponent < 0 branch; lim = max() / 10
    IF fuel = 0 THEN <<sig, ex, FALSE>>
    ELSE IF inExp = 0 THEN <<sig, ex, TRUE>>
    ELSE IF ~SmallRemIsZero(sig, inRadix) /\ CmpM(sig.m, lim.m) <= 0
         THEN DescaleNeg(MulSmall(sig, 10), ex - 1, inExp, inRadix, lim, fuel - 1)
         ELSE DescaleNeg(SmallDiv(sig, inRadix), ex, inExp + 1, inRadix, lim, fuel - 1)
RECURSIVE DescalePos(_, _, _, _, _, _)
DescalePos(sig, ex, inExp, inRadix, lim, fuel) ==         \* InExponent >= 0 branch
    IF fuel = 0 THEN <<sig, ex, FALSE>>
    ELSE IF inExp = 0 /\ ~SmallRemIsZero(sig, 10) THEN <<sig, ex, TRUE>>
    ELSE IF SmallRemIsZero(sig, 10) THEN DescalePos(SmallDiv(sig, 10), ex + 1, inExp, inRadix, lim, fuel - 1)
    ELSE IF CmpM(sig.m, lim.m) <= 0 THEN DescalePos(MulSmall(sig, inRadix), ex, inExp - 1, inRadix, lim, fuel - 1)
    ELSE <<sig, ex, FALSE>>                                \* oob and not divisible by 10: the loop makes no progress
Descale(raw, inExp, inRadix, sigMax) ==
    LET lim == SmallDiv(sigMax, 10) IN
    IF inExp < 0 THEN DescaleNeg(raw, 0, inExp, inRadix, lim, 4000) ELSE DescalePos(raw, 0, inExp, inRadix, lim, 4000)

RECURSIVE DecLenB(_)
DecLenB(x) == IF IsZero(x) THEN 0 ELSE 1 + DecLenB(Mk(FALSE, DivSmallM(x.m, 10)[1]))

\* predicted observable outcome of to_chars(first, first + cap, value): "assert" | "hang" | "ok" | "too_large"
Predict(raw, inExp, inRadix, sigMax, cap) ==
    IF cap = 0 THEN "too_large"
    ELSE IF IsZero(raw) THEN "ok"
    ELSE LET d == Descale(raw, inExp, inRadix, sigMax) IN
         IF ~d[3] THEN "hang"
         ELSE LET nsd == DecLenB(Abs(d[1]))
                  c == IF raw.n THEN cap - 1 ELSE cap
                  l == Layout(nsd, d[2], c)
              IN IF ~l.assert_ok THEN "assert" ELSE IF l.kind = "too_large" THEN "too_large" ELSE "ok"
=============================================================================
