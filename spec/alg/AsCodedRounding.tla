--------------------------- MODULE AsCodedRounding ---------------------------
(* As-coded model of division under the rounding tags, transcribed from
     include/cnl/_impl/rounding/nearest_rounding_tag.h
     include/cnl/_impl/rounding/tie_to_pos_inf_rounding_tag.h
     include/cnl/_impl/rounding/neg_inf_rounding_tag.h
   every C++ sub-expression through CxxInt (bias additions can overflow: signed ->
   UB, unsigned -> wrap; mixed signedness converts operands). *)
EXTENDS CxxInt

RLit(n) == TV(IntT(WINT, 1), FromInt(n))
RIsNeg(x) == CCmp("lt", x, RLit(0))           \* x < 0   ("T"/"F"/"UB")
\* C++ conditional on typed values: both branches have the same type here
RSel(c, p, q) == IF c = "UB" THEN TVUB(p.t) ELSE IF c = "T" THEN p ELSE q
RAbs(x) == IF x.t.s = 0 THEN x ELSE CConv(RSel(RIsNeg(x), CUn("neg", x), CUn("plus", x)), x.t)

AsCodedRoundDiv(tag, x, y) ==
    LET r == UAC(x.t, y.t) IN
    CASE tag = "native" -> CBin("div", x, y)
      [] tag = "nearest" ->
           LET half == CBin("div", y, RLit(2))
               neg == IF RIsNeg(x) = "UB" \/ RIsNeg(y) = "UB" THEN "UB" ELSE Tri(RIsNeg(x) # RIsNeg(y))
               num == RSel(neg, CBin("sub", x, half), CBin("add", x, half))
           IN CBin("div", num, y)
      [] tag = "tie_to_pos_inf" ->
           LET flip == RIsNeg(y)
               \* step1 negates in the result type (decltype(lhs / rhs)) since the fix of the unsigned-dividend wrap
               l == IF flip = "T" THEN CUn("neg", CConv(x, r)) ELSE x
               rr == IF flip = "T" THEN CUn("neg", CConv(y, r)) ELSE y
               ln == RIsNeg(l)
               bias == CBin("div", CBin("sub", rr, RSel(ln, RLit(1), RLit(0))), RLit(2))
               qq == CBin("div", CBin("add", RAbs(l), bias), rr)
           IN IF flip = "UB" THEN TVUB(r) ELSE CConv(RSel(ln, CUn("neg", qq), CUn("plus", qq)), r)
      [] tag = "neg_inf" ->
           LET rem == CConv(CBin("mod", x, y), r)
               c == CAnd(CCmp("ne", rem, RLit(0)),
                         IF RIsNeg(rem) = "UB" \/ RIsNeg(y) = "UB" THEN "UB" ELSE Tri(RIsNeg(rem) # RIsNeg(y)))
           IN IF rem.ub THEN TVUB(r)
              ELSE CConv(RSel(c, CBin("sub", CBin("div", x, y), RLit(1)), CBin("div", x, y)), r)

MatchesAsCodedRound(v, out, res) ==
    IF v.ub THEN out \in {"ub:SIGILL", "ub:SIGFPE"} ELSE out = "ok" /\ res = v.v
=============================================================================
