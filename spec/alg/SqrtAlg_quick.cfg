SPECIFICATION Spec
CONSTANT W = 12
INVARIANT IsFloorSqrt
INVARIANT NoIntermediateOverflow
PROPERTY Termination
