SPECIFICATION Spec
CONSTANT W = 16
INVARIANT IsFloorSqrt
INVARIANT NoIntermediateOverflow
PROPERTY Termination
