--------------------------- MODULE AsCodedDecFloat ---------------------------
(* As-coded model of the conversions between floating point and a scaled_integer whose radix is not 2
   (include/cnl/_impl/scaled/convert_operator.h with include/cnl/_impl/power_value.h):

     integer -> floating:   static_cast<Dest>(from) * power_value<Dest, SrcExponent - DestExponent, Radix>()
     floating -> integer:   static_cast<Result>(from * power_value<Input, SrcExponent - DestExponent, Radix>())

   power_value<S, E, Radix>() for a floating-point S is built recursively (E < 0: 1 / power(-E); E even: the square of
   power(E/2); E odd: Radix * power(E-1)).  Every floating-point operation is evaluated exactly and rounded to nearest-even
   at S's precision (the F* operators of AsCodedMakeFraction).  For a radix that is not a power of two neither the
   scale factor nor the product is exact, so the result is not always the correctly rounded / truncated value C04 states:
   the judge counts a rejected event as the listed finding only if it equals this model's prediction. *)
EXTENDS AsCodedMakeFraction

RECURSIVE PvF(_, _, _)
PvF(ex, r, p) ==
    IF ex = 0 THEN Fin(One, 0)
    ELSE IF ex < 0 THEN FDiv(Fin(One, 0), PvF(-ex, r, p), p)
    ELSE IF ex % 2 = 0 THEN LET h == PvF(ex \div 2, r, p) IN FMul(h, h, p)
    ELSE FMul(FFromInt(FromInt(r), p), PvF(ex - 1, r, p), p)

\* scaled_integer<_, power<es, r>> with representation a  ->  floating point of precision p
DecToFloatAsCoded(a, es, r, p) == FMul(FFromInt(a, p), PvF(es, r, p), p)
\* floating point x (a Fin record) of precision p  ->  representation of scaled_integer<t, power<ed, r>>
FloatToDecAsCoded(x, ed, r, p, t) == FToInt(FMul(x, PvF(-ed, r, p), p), t)

\* the recorder's float record as a Fin value
FinOf(f) == Fin(IF f.n = 1 THEN Neg(FMag(f)) ELSE FMag(f), f.e)
SameFloat(f, x) == f.c = "fin" /\ IsFin(x) /\
                   (IF FIsZero(x) THEN IsZero(FMag(f))
                    ELSE NormDyadic(FMag(f), f.e) = NormDyadic(Abs(x.m), x.e) /\ (f.n = 1) = x.m.n)
=============================================================================
