------------------------------ MODULE CnlMachine ------------------------------
(* The state machine behind C11: a register file of typed static_number / static_integer values and the
   transitions of the public API that feed each other.

   State:   regs[r]  = raw representation held by register r (its declared type is Menu[r])
   Actions: Reset            all registers value-initialised (0)
            Load(r, v)       r := v
            FromInt(r, k)    r := its type constructed from the built-in integer k (rounded / overflow-checked like a Step)
            Cmp(a, b)        the six comparisons of two registers by value            (no state change)
            ToFloat(a)       conversion to double: one of the two neighbouring doubles (no state change)
            Step("neg", a, a, d)   d := -a;   compound assignment d op= a is the Step d := d op a
            Step("mov", a, a, d)   d := a    (plain assignment: the conversion between two register types on its own)
            Step(op, a, b, d)  d := a op b   -- the binary operator on the operands' types (elastic widening: exact
                             for +,-,*; the quotient rounded by the rounding mode for /) followed by conversion to d's
                             declared type: rounding conversion by d's rounding mode, then the overflow check of d's
                             overflow tag (saturate / throw / trap; on throw and trap the destination keeps its value).

   NeverSilentlyWrong (C11): every Step either stores exactly Expected(...) or signals overflow as the tag
   prescribes; no other register changes.  The same operators generate the programs (gen/GenPrograms uses the
   action alphabet) and judge the recorded executions (JudgeMachine replays them with the state carried along). *)
EXTENDS SemRounding

TDig(t) == t.digits
TExp(t) == ExpOf(t)
TMaxRaw(t) == Sub(Pow2(TDig(t)), One)

\* exact result of the operator before conversion: <<raw, exponent>>
OpResultValue(op, ta, ra, tb, rb) ==
    CASE op \in {"add", "sub"} ->
           LET em == MinI(TExp(ta), TExp(tb))
               x == Shl(ra, TExp(ta) - em)  y == Shl(rb, TExp(tb) - em)
           IN <<IF op = "add" THEN Add(x, y) ELSE Sub(x, y), em>>
      [] op = "mul" -> <<Mul(ra, rb), TExp(ta) + TExp(tb)>>
      [] op = "div" -> <<RoundQ(ra, rb, RoundingOf(ta)), TExp(ta) - TExp(tb)>>
      [] op = "neg" -> <<Neg(ra), TExp(ta)>>                       \* unary minus (b is ignored)
      [] op = "mov" -> <<ra, TExp(ta)>>                            \* plain assignment d := a (b is ignored)
      [] op = "mod" -> <<TruncRem(ra, rb), TExp(ta)>>             \* remainder of the representations, at a's exponent

\* order of the values of two registers: -1, 0, 1
CmpValue(ta, ra, tb, rb) ==
    LET em == MinI(TExp(ta), TExp(tb)) IN Cmp(Shl(ra, TExp(ta) - em), Shl(rb, TExp(tb) - em))
\* the six comparison results as one number: < 1, <= 2, > 4, >= 8, == 16, != 32
CmpMaskOf(c) == (IF c < 0 THEN 1 ELSE 0) + (IF c <= 0 THEN 2 ELSE 0) + (IF c > 0 THEN 4 ELSE 0) + (IF c >= 0 THEN 8 ELSE 0)
                + (IF c = 0 THEN 16 ELSE 0) + (IF c # 0 THEN 32 ELSE 0)

\* conversion of <<raw, exponent>> to type td: [k |-> "val", v] or [k |-> "pos"/"neg"]
ConvertTo(val, td) ==
    LET sh == val[2] - TExp(td)
        r == IF sh >= 0 THEN Shl(val[1], sh) ELSE RoundQ(val[1], Pow2(-sh), RoundingOf(td))
    IN IF Gt(r, TMaxRaw(td)) THEN [k |-> "pos", v |-> TMaxRaw(td)]
       ELSE IF Lt(r, Neg(TMaxRaw(td))) THEN [k |-> "neg", v |-> Neg(TMaxRaw(td))]
       ELSE [k |-> "val", v |-> r]

\* what storing the exact value `val` (<<raw, exponent>>) into a register of type td must look like: expected
\* `after` and `out` given the destination's overflow tag
StoreOK(val, td, before, after, out) ==
    LET c == ConvertTo(val, td)
        tag == OverflowOf(td)
    IN IF c.k = "val" THEN out = "ok" /\ after = c.v
       ELSE CASE tag = "saturated" -> out = "ok" /\ after = c.v
              [] tag = "throwing" -> out = (IF c.k = "pos" THEN "throw:positive overflow" ELSE "throw:negative overflow") /\ after = before
              [] tag = "trapping" -> out = (IF c.k = "pos" THEN "trap:positive overflow" ELSE "trap:negative overflow") /\ after = before
              [] OTHER -> TRUE
\* what a Step must look like
StepOK(op, ta, ra, tb, rb, td, before, after, out) ==
    LET c == ConvertTo(OpResultValue(op, ta, ra, tb, rb), td)
        tag == OverflowOf(td)
    IN IF c.k = "val" THEN out = "ok" /\ after = c.v
       ELSE CASE tag = "saturated" -> out = "ok" /\ after = c.v
              [] tag = "throwing" -> out = (IF c.k = "pos" THEN "throw:positive overflow" ELSE "throw:negative overflow") /\ after = before
              [] tag = "trapping" -> out = (IF c.k = "pos" THEN "trap:positive overflow" ELSE "trap:negative overflow") /\ after = before
              [] OTHER -> TRUE       \* native / undefined tags: no promise once the result is out of range
\* --- deviation classes inherited from the layers below (known findings of C05 / C08 / C09), as predicates ---
\* digits of the operator's (elastic) result type
TmpDigits(op, ta, tb) ==
    CASE op \in {"add", "sub"} -> LET em == MinI(TExp(ta), TExp(tb))
                                  IN MaxI2(TDig(ta) + (TExp(ta) - em), TDig(tb) + (TExp(tb) - em)) + 1
      [] op = "mul" -> TDig(ta) + TDig(tb)
      [] op = "div" -> TDig(ta)
      [] op \in {"neg", "mov"} -> TDig(ta)
      [] op = "mod" -> MinI(TDig(ta), TDig(tb))
StorageDigits(t) == TDigits(AsIntT(InnerT(t)))
\* elastic / casts both operands to the dividend-sized representation (ELASTIC-DIVMOD-NARROWS-OPERAND)
DivOperandNarrowed(op, ta, ra, tb, rb) == op = "div" /\ BitLen(rb) > MaxI2(TDig(ta), StorageDigits(ta))
\* nearest / tie_to_pos_inf division adds half the divisor inside the storage type (RDIV-BIAS-OVERFLOW)
DivBiasOverflows(op, ta, ra, tb, rb) ==
    op = "div" /\ RoundingOf(ta) \in {"nearest", "tie_to_pos_inf"} /\ BitLen(Add(Abs(ra), Abs(rb))) > StorageDigits(ta)
\* the rounding conversion adds half a destination unit in the operator's result type, where neither the
\* destination unit nor the biased value need be representable (RCONV-SCALED-BIAS-OVERFLOW)
NarrowingBiasUnrepresentable(op, ta, ra, tb, rb, td) ==
    LET val == OpResultValue(op, ta, ra, tb, rb)  sh == val[2] - TExp(td) IN
    sh < 0 /\ RoundingOf(td) \in {"nearest", "tie_to_pos_inf"}
           /\ BitLen(Add(Abs(val[1]), Pow2(-sh))) > TmpDigits(op, ta, tb)
\* neg_inf / tie_to_pos_inf conversions shift the elastic representation right: a negative value can floor to
\* -2^k in a type whose symmetric range excludes it (ELASTIC-SHR-NEGATIVE-LEAVES-RANGE), which a checked tag reports
ShrLeavesRange(op, ta, ra, tb, rb, td) ==
    LET val == OpResultValue(op, ta, ra, tb, rb)  sh == val[2] - TExp(td)  dg == TmpDigits(op, ta, tb) + sh IN
    sh < 0 /\ RoundingOf(td) \in {"neg_inf", "tie_to_pos_inf"} /\ val[1].n
           /\ Le(RoundQ(val[1], Pow2(-sh), RoundingOf(td)), Neg(Pow2(MaxI2(0, dg))))
\* the conversion to a coarser destination shifts the operator's result right by at least as many bits as that result has
\* digits (only % produces results this short): the shift count is not smaller than the width of the narrow storage type
ShiftExceedsDigits(op, ta, ra, tb, rb, td) ==
    LET val == OpResultValue(op, ta, ra, tb, rb)  sh == val[2] - TExp(td) IN
    sh < 0 /\ RoundingOf(td) # "native" /\ -sh >= TmpDigits(op, ta, tb)
Signalled(op, ta, ra, tb, rb, td) == ConvertTo(OpResultValue(op, ta, ra, tb, rb), td).k # "val"
=============================================================================
