------------------------------ MODULE CnlMachine ------------------------------
(* The state machine behind C11: a register file of typed static_number / static_integer values and the
   transitions of the public API that feed each other.

   State:   regs[r]  = raw representation held by register r (its declared type is Menu[r])
   Actions: Reset            all registers value-initialised (0)
            Load(r, v)       r := v
            FromInt(r, k)    r := its type constructed from the built-in integer k (rounded / overflow-checked like a Step)
            Cmp(a, b)        the six comparisons of two registers by value            (no state change)
            ToFloat(a)       conversion to double: one of the two neighbouring doubles (no state change)
            Step("neg", a, a, d)   d := -a;   compound assignment d op= a is the Step d := d op a
            Step("mov", a, a, d)   d := a    (plain assignment: the conversion between two register types on its own)
            Step(c, a, b, d), c in CompositeOps   d := one expression with two operators, e.g. -(a * b) or (a + b) * a: the elastic
                             intermediate is never converted to a declared type (exact arithmetic, one final conversion)
            Step(op, a, b, d)  d := a op b   -- the binary operator on the operands' types (elastic widening: exact
                             for +,-,*; the quotient rounded by the rounding mode for /) followed by conversion to d's
                             declared type: rounding conversion by d's rounding mode, then the overflow check of d's
                             overflow tag (saturate / throw / trap; on throw and trap the destination keeps its value).

   NeverSilentlyWrong (C11): every Step either stores exactly Expected(...) or signals overflow as the tag
   prescribes; no other register changes.  The same operators generate the programs (gen/GenPrograms uses the
   action alphabet) and judge the recorded executions (JudgeMachine replays them with the state carried along). *)
EXTENDS SemRounding

TDig(t) == t.digits
TExp(t) == ExpOf(t)
TMaxRaw(t) == Sub(Pow2(TDig(t)), One)
TMinRaw(t) == IF t.sg = 1 THEN Neg(TMaxRaw(t)) ELSE Zero        \* unsigned Narrowest: [0, 2^digits - 1]
InRegRange(x, t) == Le(TMinRaw(t), x) /\ Le(x, TMaxRaw(t))

\* exact arithmetic on values <<raw, exponent>> (what the elastic layers promise for +, -, * and unary minus)
VAdd(x, y) == LET em == MinI(x[2], y[2]) IN <<Add(Shl(x[1], x[2] - em), Shl(y[1], y[2] - em)), em>>
VSub(x, y) == LET em == MinI(x[2], y[2]) IN <<Sub(Shl(x[1], x[2] - em), Shl(y[1], y[2] - em)), em>>
VMul(x, y) == <<Mul(x[1], y[1]), x[2] + y[2]>>
VNeg(x) == <<Neg(x[1]), x[2]>>
\* composite expressions (round 9): one C++ expression with an elastic intermediate that is never converted to a declared type
\*   neg_add -(a + b)   neg_sub -(a - b)   neg_mul -(a * b)   mul_add (a * b) + a   mul_sub (a * b) - a   add_mul (a + b) * a   sub_mul (a - b) * b
CompositeOps == {"neg_add", "neg_sub", "neg_mul", "mul_add", "mul_sub", "add_mul", "sub_mul"}
\* exact result of the operator / expression before conversion: <<raw, exponent>>
OpResultValue(op, ta, ra, tb, rb) ==
    LET Av == <<ra, TExp(ta)>>  Bv == <<rb, TExp(tb)>> IN
    CASE op = "add" -> VAdd(Av, Bv)
      [] op = "sub" -> VSub(Av, Bv)
      [] op = "mul" -> VMul(Av, Bv)
      [] op = "div" -> <<RoundQ(ra, rb, RoundingOf(ta)), TExp(ta) - TExp(tb)>>
      [] op = "neg" -> VNeg(Av)                                     \* unary minus (b is ignored)
      [] op = "mov" -> Av                                           \* plain assignment d := a (b is ignored)
      [] op = "mod" -> <<TruncRem(ra, rb), TExp(ta)>>             \* remainder of the representations, at a's exponent
      [] op = "neg_add" -> VNeg(VAdd(Av, Bv))
      [] op = "neg_sub" -> VNeg(VSub(Av, Bv))
      [] op = "neg_mul" -> VNeg(VMul(Av, Bv))
      [] op = "mul_add" -> VAdd(VMul(Av, Bv), Av)
      [] op = "mul_sub" -> VSub(VMul(Av, Bv), Av)
      [] op = "add_mul" -> VMul(VAdd(Av, Bv), Av)
      [] op = "sub_mul" -> VMul(VSub(Av, Bv), Bv)

\* order of the values of two registers: -1, 0, 1
CmpValue(ta, ra, tb, rb) ==
    LET em == MinI(TExp(ta), TExp(tb)) IN Cmp(Shl(ra, TExp(ta) - em), Shl(rb, TExp(tb) - em))
\* the six comparison results as one number: < 1, <= 2, > 4, >= 8, == 16, != 32
CmpMaskOf(c) == (IF c < 0 THEN 1 ELSE 0) + (IF c <= 0 THEN 2 ELSE 0) + (IF c > 0 THEN 4 ELSE 0) + (IF c >= 0 THEN 8 ELSE 0)
                + (IF c = 0 THEN 16 ELSE 0) + (IF c # 0 THEN 32 ELSE 0)

\* conversion of <<raw, exponent>> to type td: [k |-> "val", v] or [k |-> "pos"/"neg"]
ConvertTo(val, td) ==
    LET sh == val[2] - TExp(td)
        r == IF sh >= 0 THEN Shl(val[1], sh) ELSE RoundQ(val[1], Pow2(-sh), RoundingOf(td))
    IN IF Gt(r, TMaxRaw(td)) THEN [k |-> "pos", v |-> TMaxRaw(td)]
       ELSE IF Lt(r, TMinRaw(td)) THEN [k |-> "neg", v |-> TMinRaw(td)]
       ELSE [k |-> "val", v |-> r]

\* what storing the exact value `val` (<<raw, exponent>>) into a register of type td must look like: expected
\* `after` and `out` given the destination's overflow tag
StoreOK(val, td, before, after, out) ==
    LET c == ConvertTo(val, td)
        tag == OverflowOf(td)
    IN IF c.k = "val" THEN out = "ok" /\ after = c.v
       ELSE CASE tag = "saturated" -> out = "ok" /\ after = c.v
              [] tag = "throwing" -> out = (IF c.k = "pos" THEN "throw:positive overflow" ELSE "throw:negative overflow") /\ after = before
              [] tag = "trapping" -> out = (IF c.k = "pos" THEN "trap:positive overflow" ELSE "trap:negative overflow") /\ after = before
              [] OTHER -> TRUE
\* Reading decision (round 9, DESIGN 6.0): C11 promises "the exact result rounded by the type's rounding mode, or an overflow signal".
\* The library evaluates the overflow predicate on the UNROUNDED value; when that exact value lies outside the destination's range and
\* only rounding would bring it back to the bound (-0.3 units into an unsigned type; max + 0.3 units) the prescribed signal is
\* accepted -- it is not a silent wrong value -- as well as the rounded value.
UnroundedSide(val, td) ==
    LET sh == val[2] - TExp(td) IN
    IF sh >= 0 THEN "none"
    ELSE IF Gt(val[1], Shl(TMaxRaw(td), -sh)) THEN "pos"
    ELSE IF Lt(val[1], Shl(TMinRaw(td), -sh)) THEN "neg" ELSE "none"
SignalOnUnrounded(val, td, before, after, out) ==
    LET side == UnroundedSide(val, td)  tag == OverflowOf(td) IN
    side # "none" /\ after = before
    /\ CASE tag = "throwing" -> out = (IF side = "pos" THEN "throw:positive overflow" ELSE "throw:negative overflow")
         [] tag = "trapping" -> out = (IF side = "pos" THEN "trap:positive overflow" ELSE "trap:negative overflow")
         [] OTHER -> FALSE
\* what a Step must look like
StepOK(op, ta, ra, tb, rb, td, before, after, out) ==
    LET c == ConvertTo(OpResultValue(op, ta, ra, tb, rb), td)
        tag == OverflowOf(td)
    IN IF c.k = "val" THEN out = "ok" /\ after = c.v
       ELSE CASE tag = "saturated" -> out = "ok" /\ after = c.v
              [] tag = "throwing" -> out = (IF c.k = "pos" THEN "throw:positive overflow" ELSE "throw:negative overflow") /\ after = before
              [] tag = "trapping" -> out = (IF c.k = "pos" THEN "trap:positive overflow" ELSE "trap:negative overflow") /\ after = before
              [] OTHER -> TRUE       \* native / undefined tags: no promise once the result is out of range
\* --- deviation classes inherited from the layers below (known findings of C05 / C08 / C09), as predicates ---
\* digits of the operator's (elastic) result type
\* digit arithmetic on <<digits, exponent>>
DgAdd(x, y) == LET em == MinI(x[2], y[2]) IN <<MaxI2(x[1] + (x[2] - em), y[1] + (y[2] - em)) + 1, em>>
DgMul(x, y) == <<x[1] + y[1], x[2] + y[2]>>
TmpDigits(op, ta, tb) ==
    LET Ad == <<TDig(ta), TExp(ta)>>  Bd == <<TDig(tb), TExp(tb)>> IN
    CASE op \in {"add", "sub", "neg_add", "neg_sub"} -> DgAdd(Ad, Bd)[1]
      [] op \in {"mul", "neg_mul"} -> TDig(ta) + TDig(tb)
      [] op = "div" -> TDig(ta)
      [] op \in {"neg", "mov"} -> TDig(ta)
      [] op = "mod" -> MinI(TDig(ta), TDig(tb))
      [] op \in {"mul_add", "mul_sub"} -> DgAdd(DgMul(Ad, Bd), Ad)[1]
      [] op = "add_mul" -> DgMul(DgAdd(Ad, Bd), Ad)[1]
      [] op = "sub_mul" -> DgMul(DgAdd(Ad, Bd), Bd)[1]
StorageDigits(t) == TDigits(AsIntT(InnerT(t)))
\* elastic / casts both operands to the dividend-sized representation (ELASTIC-DIVMOD-NARROWS-OPERAND)
DivOperandNarrowed(op, ta, ra, tb, rb) == op = "div" /\ BitLen(rb) > MaxI2(TDig(ta), StorageDigits(ta))
\* nearest / tie_to_pos_inf division adds half the divisor inside the storage type (RDIV-BIAS-OVERFLOW)
DivBiasOverflows(op, ta, ra, tb, rb) ==
    op = "div" /\ RoundingOf(ta) \in {"nearest", "tie_to_pos_inf"} /\ BitLen(Add(Abs(ra), Abs(rb))) > StorageDigits(ta)
\* the rounding conversion adds half a destination unit in the operator's result type, where neither the
\* destination unit nor the biased value need be representable (RCONV-SCALED-BIAS-OVERFLOW)
NarrowingBiasUnrepresentable(op, ta, ra, tb, rb, td) ==
    LET val == OpResultValue(op, ta, ra, tb, rb)  sh == val[2] - TExp(td) IN
    sh < 0 /\ RoundingOf(td) \in {"nearest", "tie_to_pos_inf"}
           /\ BitLen(Add(Abs(val[1]), Pow2(-sh))) > TmpDigits(op, ta, tb)
\* neg_inf / tie_to_pos_inf conversions shift the elastic representation right: a negative value can floor to
\* -2^k in a type whose symmetric range excludes it (ELASTIC-SHR-NEGATIVE-LEAVES-RANGE), which a checked tag reports
ShrLeavesRange(op, ta, ra, tb, rb, td) ==
    LET val == OpResultValue(op, ta, ra, tb, rb)  sh == val[2] - TExp(td)  dg == TmpDigits(op, ta, tb) + sh IN
    sh < 0 /\ RoundingOf(td) \in {"neg_inf", "tie_to_pos_inf"} /\ val[1].n
           /\ Le(RoundQ(val[1], Pow2(-sh), RoundingOf(td)), Neg(Pow2(MaxI2(0, dg))))
\* the conversion to a coarser destination shifts the operator's result right by at least as many bits as that result has
\* digits (only % produces results this short): the shift count is not smaller than the width of the narrow storage type
ShiftExceedsDigits(op, ta, ra, tb, rb, td) ==
    LET val == OpResultValue(op, ta, ra, tb, rb)  sh == val[2] - TExp(td) IN
    sh < 0 /\ RoundingOf(td) # "native" /\ -sh >= TmpDigits(op, ta, tb)
Signalled(op, ta, ra, tb, rb, td) == ConvertTo(OpResultValue(op, ta, ra, tb, rb), td).k # "val"
=============================================================================
