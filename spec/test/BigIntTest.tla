---- MODULE BigIntTest ----
(* self-test of BigInt against cases computed by Python (tools/gen_bigint_cases.py) *)
EXTENDS BigInt, TLC, Json, IOUtils
Tr == ndJsonDeserialize(IOEnv.TRACE)
Chk(e) ==
  LET a == J(e.a) b == J(e.b) k == e.k w == e.w IN
  /\ Add(a, b) = J(e.add) /\ Sub(a, b) = J(e.sub) /\ Mul(a, b) = J(e.mul)
  /\ (Cmp(a, b) = e.cmp)
  /\ (IsZero(b) \/ (TruncDiv(a, b) = J(e.tdiv) /\ TruncRem(a, b) = J(e.trem) /\ FloorDiv(a, b) = J(e.fdiv)
                    /\ IsTruncDivMod(a, b, J(e.tdiv), J(e.trem))))
  /\ Shl(a, k) = J(e.shl) /\ ShrFloor(a, k) = J(e.shrf) /\ ShrTrunc(a, k) = J(e.shrt)
  /\ ModPow2(a, k) = J(e.modp) /\ BitLen(a) = e.bitlen
  /\ Wrap(a, w, TRUE) = J(e.wraps) /\ Wrap(a, w, FALSE) = J(e.wrapu)
  /\ BitOp("and", a, b, w, TRUE) = J(e.ands) /\ BitOp("or", a, b, w, FALSE) = J(e.oru) /\ BitOp("xor", a, b, w, TRUE) = J(e.xors)
  /\ BitNot(a, w, TRUE) = J(e.nots)
  /\ (a.n \/ ISqrt(a) = J(e.isqrt))
  /\ PowSmall(10, k % 40) = J(e.p10)
ASSUME \A i \in 1..Len(Tr) : Chk(Tr[i]) \/ (PrintT(<<"FAIL", i, Tr[i]>>) /\ FALSE)
VARIABLE x
Init == x = 0
Next == UNCHANGED x
====
