INIT Init
NEXT Next
