------------------------------- MODULE CxxInt -------------------------------
(* The C++ built-in integer semantics that cnl rests on, over unbounded
   integers (BigInt).  The machine is parametric: WINT is the width of `int`
   (the promotion threshold); a type is a record [k |-> "int", w, s] with
   s \in {0,1}.  Real machine: widths 8,16,32,64,128 and WINT = 32; the
   scaled-down machines of the MC_* models choose small widths.

   Every operation returns a typed value [t, v, ub]; ub = TRUE stands for
   "the C++ abstract machine executes undefined behaviour here" (signed
   overflow, division by zero, MIN / -1, over-wide or negative shift count).
   This follows C++20: left shift of a signed value is modular, right shift
   is arithmetic; neither is UB unless the count is out of range. *)
EXTENDS BigInt

CONSTANT WINT

IntT(w, s) == [k |-> "int", w |-> w, s |-> s]
IsIntT(t) == t.k = "int"
TSigned(t) == t.s = 1
TMin(t) == MinOf(t.w, t.s = 1)
TMax(t) == MaxOf(t.w, t.s = 1)
TDigits(t) == IF t.s = 1 THEN t.w - 1 ELSE t.w
InT(x, t) == InRange(x, t.w, t.s = 1)
WrapT(x, t) == Wrap(x, t.w, t.s = 1)

\* integral promotion and usual arithmetic conversions (observable facts: width, signedness)
Promote(t) == IF t.w < WINT THEN IntT(WINT, 1) ELSE t
UAC(t1, t2) == LET a == Promote(t1)  b == Promote(t2)
               IN IF a.s = b.s THEN (IF a.w >= b.w THEN a ELSE b)
                  ELSE LET u == IF a.s = 1 THEN b ELSE a      \* the unsigned one
                           g == IF a.s = 1 THEN a ELSE b      \* the signed one
                       IN IF u.w >= g.w THEN u ELSE g          \* signed wins only if strictly wider

TV(t, v) == [t |-> t, v |-> v, ub |-> FALSE]
TVUB(t) == [t |-> t, v |-> Zero, ub |-> TRUE]

\* conversion to integer type t (always defined: modulo 2^w)
CConv(x, t) == IF x.ub THEN TVUB(t) ELSE TV(t, WrapT(x.v, t))

ExactArith(op, a, b) == CASE op = "add" -> Add(a, b) [] op = "sub" -> Sub(a, b) [] op = "mul" -> Mul(a, b)

\* binary arithmetic / bitwise operators: operands converted to the common type
CBin(op, x, y) ==
    LET r == UAC(x.t, y.t) IN
    IF x.ub \/ y.ub THEN TVUB(r)
    ELSE LET a == WrapT(x.v, r)  b == WrapT(y.v, r) IN
         CASE op \in {"add", "sub", "mul"} ->
                LET e == ExactArith(op, a, b)
                IN IF InT(e, r) THEN TV(r, e) ELSE IF r.s = 1 THEN TVUB(r) ELSE TV(r, WrapT(e, r))
           [] op = "div" ->
                IF IsZero(b) THEN TVUB(r)
                ELSE LET qq == TruncDiv(a, b) IN IF InT(qq, r) THEN TV(r, qq) ELSE TVUB(r)
           [] op = "mod" ->
                IF IsZero(b) THEN TVUB(r)
                ELSE IF ~InT(TruncDiv(a, b), r) THEN TVUB(r) ELSE TV(r, TruncRem(a, b))
           [] op \in {"and", "or", "xor"} -> TV(r, BitOp(op, a, b, r.w, r.s = 1))

\* shifts: result type is the promoted left operand; count must be in [0, width)
CShift(op, x, y) ==
    LET r == Promote(x.t) IN
    IF x.ub \/ y.ub THEN TVUB(r)
    ELSE IF y.v.n \/ ~IsSmall(y.v) \/ ToInt(y.v) >= r.w THEN TVUB(r)
    ELSE LET a == WrapT(x.v, r)  k == ToInt(y.v) IN
         IF op = "shl" THEN TV(r, WrapT(Shl(a, k), r)) ELSE TV(r, ShrFloor(a, k))

CUn(op, x) ==
    LET r == Promote(x.t) IN
    IF x.ub THEN TVUB(r)
    ELSE LET a == WrapT(x.v, r) IN
         CASE op = "neg" -> (LET e == Neg(a) IN IF InT(e, r) THEN TV(r, e)
                                                 ELSE IF r.s = 1 THEN TVUB(r) ELSE TV(r, WrapT(e, r)))
           [] op = "plus" -> TV(r, a)
           [] op = "not" -> TV(r, BitNot(a, r.w, r.s = 1))

\* comparison: "T" / "F" / "UB"
CCmp(rel, x, y) ==
    IF x.ub \/ y.ub THEN "UB"
    ELSE LET r == UAC(x.t, y.t)  c == Cmp(WrapT(x.v, r), WrapT(y.v, r))
         IN IF (CASE rel = "lt" -> c < 0 [] rel = "le" -> c <= 0 [] rel = "gt" -> c > 0
                  [] rel = "ge" -> c >= 0 [] rel = "eq" -> c = 0 [] rel = "ne" -> c # 0) THEN "T" ELSE "F"
\* short-circuit && over "T"/"F"/"UB"
CAnd(p, qq) == IF p = "UB" THEN "UB" ELSE IF p = "F" THEN "F" ELSE qq
Tri(b) == IF b THEN "T" ELSE "F"

\* result type of a built-in operator expression (this is cnl's op_result<>)
OpResult(op, lt, rt) == IF op \in {"shl", "shr"} THEN Promote(lt) ELSE UAC(lt, rt)
OpResult1(op, t) == Promote(t)
=============================================================================
