------------------------------- MODULE SemMath -------------------------------
(* C20: exp2 on scaled_integer is within one unit in the last place of the true
   2^x truncated to the result resolution (exact for integral x); the <numbers>
   constants are within one unit of the last place.  Transcendental truths enter
   only through the certified enclosure tables of Exp2Bounds and the literal
   table MathConstants (floor(C * 2^80)). *)
EXTENDS CnlTypes, Exp2Bounds, MathConstants

MUb(out) == out \in {"ub:SIGILL", "ub:SIGFPE", "ub:SIGSEGV", "ub:SIGBUS", "ub:signal"}
\* floor(p * 2^s) for p >= 0 and any integer s
ScaleFloor(p, s) == IF s >= 0 THEN Shl(p, s) ELSE ShrNonNeg(p, -s)

\* x = raw * 2^E with E < 0, result rep y at the same exponent
JudgeExp2(e, i) ==
    LET t == i.lt  E == ExpOf(t)  nb == -E
        raw == J(e.x)  y == J(e.res)
        n == ToInt(ShrFloor(raw, nb))                    \* floor(x)
        fr == ModPow2(raw, nb)                           \* fractional part, nb bits
        frI == IF nb <= 30 THEN ToInt(fr) ELSE 0
        digs == TDigits(AsIntT(InnerT(t)))
        cls == <<"Exp2", InnerT(t).w, InnerT(t).s, E>>
        \* enclosure of 2^frac * 2^F; tables cover 40 fraction bits, exponents here have at most 30
        lo == Lo(frI, nb)  hi == Hi(frI, nb)
        tlo == ScaleFloor(lo, n - E - F)  thi == ScaleFloor(hi, n - E - F)
        integral == IsZero(fr)
    IN IF E >= 0 THEN
           \* a scale of one or coarser: x = raw * 2^E is integral; exact whenever 2^x is a multiple of the resolution and fits
           LET xi == IF IsSmall(raw) /\ ToInt(raw) < 4096 /\ ToInt(raw) > -4096 THEN ToInt(raw) * (2 ^ E) ELSE 100000
           IN IF E > 8 \/ xi - E < 0 \/ xi - E >= digs THEN [d |-> "skip", nt |-> FALSE, cls |-> cls]
              ELSE [d |-> (IF MUb(e.out) THEN "ub" ELSE IF e.out = "timeout" THEN "timeout" ELSE IF e.out # "ok" THEN "unexpected_signal"
                           ELSE IF y = Pow2(xi - E) THEN "ok" ELSE "inexact_for_integral_x"),
                    nt |-> TRUE, cls |-> cls]
       ELSE IF nb < 1 \/ nb > 30 \/ ~IsSmall(ShrFloor(raw, nb)) \/ n + 1 > digs + E \/ n - E < -2
       THEN [d |-> "skip", nt |-> FALSE, cls |-> cls]                \* result not representable / out of the modelled range
       ELSE [d |-> (IF MUb(e.out) THEN "ub" ELSE IF e.out = "timeout" THEN "timeout" ELSE IF e.out # "ok" THEN "unexpected_signal"
                    \* exact for integral x whenever 2^x is a multiple of the result resolution
                    ELSE IF integral /\ n - E >= 0 THEN (IF y = ScaleFloor(One, n - E) THEN "ok" ELSE "inexact_for_integral_x")
                    ELSE IF Le(Sub(tlo, One), y) /\ Le(y, Add(thi, One)) THEN "ok"
                    ELSE IF Le(Sub(tlo, FromInt(3)), y) /\ Le(y, Add(thi, FromInt(3))) THEN "two_or_three_units_off"
                    ELSE "more_than_three_units_off"),
             nt |-> ~integral, cls |-> cls]

\* constant named i.op in type i.lt: |raw * 2^E - C| < 2^E
JudgeConst(e, i) ==
    LET t == i.lt  E == ExpOf(t)  raw == J(e.res)
        c == ConstFloor(i.op)                             \* floor(C * 2^CF)
        cls == <<"Const", i.op, InnerT(t).w, E>>
        R == ScaleFloor(raw, E + CF)                      \* raw * 2^(E+CF) (exact when E + CF >= 0)
        U == ScaleFloor(One, E + CF)                      \* one unit of the last place, scaled
    IN IF E + CF < 0 \/ E > 0 \/ BitLen(c) - CF > TDigits(AsIntT(InnerT(t))) + E THEN [d |-> "skip", nt |-> FALSE, cls |-> cls]
       ELSE [d |-> (IF e.out # "ok" THEN (IF MUb(e.out) THEN "ub" ELSE "unexpected_signal")
                    ELSE IF Lt(Sub(c, U), R) /\ Lt(R, Add(Add(c, One), U)) THEN "ok" ELSE "more_than_one_unit_off"),
             nt |-> TRUE, cls |-> cls]
=============================================================================
