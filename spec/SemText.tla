------------------------------- MODULE SemText -------------------------------
(* C13: to_chars stays inside the caller's buffer and fails cleanly.
   C14: the text denotes the value -- canonical numeral for integers; for
   scaled_integer a decimal (fixed or scientific) with the value's sign whose
   magnitude is the exact expansion truncated toward zero.
   The recorded bytes are tokenised and evaluated here with unbounded integers. *)
EXTENDS CnlTypes

TxUb(out) == out \in {"ub:SIGILL", "ub:SIGFPE", "ub:SIGSEGV", "ub:SIGBUS", "ub:signal"}
IsDig(b) == b >= 48 /\ b <= 57
\* digit value of a byte in bases up to 36 ('0'-'9', 'a'-'z'); 99 = not a digit
DigVal(b) == IF b >= 48 /\ b <= 57 THEN b - 48 ELSE IF b >= 97 /\ b <= 122 THEN b - 87 ELSE 99

RECURSIVE Horner(_, _, _, _, _)
Horner(t, k, hi, base, acc) == IF k > hi THEN acc ELSE Horner(t, k + 1, hi, base, Add(MulSmall(acc, base), FromInt(DigVal(t[k]))))
RECURSIVE AllDigits(_, _, _, _)
AllDigits(t, k, hi, base) == k > hi \/ (DigVal(t[k]) < base /\ AllDigits(t, k + 1, hi, base))
RECURSIVE FirstNot(_, _, _)         \* first index >= k whose byte is not a decimal digit (Len+1 if none)
FirstNot(t, k, n) == IF k > n \/ ~IsDig(t[k]) THEN k ELSE FirstNot(t, k + 1, n)

\* ---------------------------------------------------------------- C13
\* e: cap, off, ec, pre_ok, tail_ok, out
BufferDiag(e) ==
    IF TxUb(e.out) THEN "ub"                                  \* includes a fault on the guard page past `last`
    ELSE IF e.out = "timeout" THEN "timeout"
    ELSE IF e.out # "ok" THEN "unreachable"
    ELSE IF e.pre_ok # 1 THEN "wrote_before_first"
    ELSE IF e.ec = 0 THEN (IF e.off <= 0 \/ e.off > e.cap THEN "bad_shape" ELSE IF e.tail_ok # 1 THEN "not_exactly_first_to_p" ELSE "ok")
    ELSE IF e.ec = 1 THEN (IF e.off = e.cap THEN "ok" ELSE "bad_shape")
    ELSE "bad_shape"

\* ---------------------------------------------------------------- C14, integers
IntTextOK(t, a, base) ==
    LET n == Len(t)
        neg == n >= 1 /\ t[1] = 45
        lo == IF neg THEN 2 ELSE 1
    IN /\ n >= lo
       /\ AllDigits(t, lo, n, base)
       /\ (n = lo \/ t[lo] # 48)              \* no leading zeros
       /\ neg = a.n
       /\ Horner(t, lo, n, base, Zero) = Abs(a)

\* ---------------------------------------------------------------- C14, scaled_integer
\* parse  -? d* (. d*)? (e -? d+)?  ->  [ok, neg, mant, q] : magnitude = mant * 10^q
ParseDecimal(t) ==
    LET n == Len(t)
        neg == n >= 1 /\ t[1] = 45
        p0 == IF neg THEN 2 ELSE 1
        p1 == FirstNot(t, p0, n)                       \* end of integer digits
        hasDot == p1 <= n /\ t[p1] = 46
        p2 == IF hasDot THEN FirstNot(t, p1 + 1, n) ELSE p1       \* end of fraction digits
        intDigs == p1 - p0
        fracDigs == IF hasDot THEN p2 - (p1 + 1) ELSE 0
        hasExp == p2 <= n /\ t[p2] = 101
        eneg == hasExp /\ p2 + 1 <= n /\ t[p2 + 1] = 45
        e0 == IF eneg THEN p2 + 2 ELSE p2 + 1
        e1 == IF hasExp THEN FirstNot(t, e0, n) ELSE p2
        expDigs == IF hasExp THEN e1 - e0 ELSE 0
        wellFormed == /\ intDigs + fracDigs >= 1
                      /\ (IF hasExp THEN expDigs >= 1 /\ expDigs <= 6 /\ e1 = n + 1 ELSE p2 = n + 1)
        mantI == Horner(t, p0, p1 - 1, 10, Zero)
        mant == IF hasDot THEN Horner(t, p1 + 1, p2 - 1, 10, mantI) ELSE mantI
        ex == IF hasExp /\ wellFormed THEN ToInt(Horner(t, e0, e1 - 1, 10, Zero)) ELSE 0
    IN [ok |-> wellFormed, neg |-> neg, mant |-> mant, q |-> (IF eneg THEN -ex ELSE ex) - fracDigs]

Pos(x) == IF x > 0 THEN x ELSE 0
RECURSIVE StripZeros(_)
StripZeros(x) == IF IsZero(x) THEN x ELSE LET qr == DivSmallM(x.m, 10) IN IF qr[2] = 0 THEN StripZeros(Mk(FALSE, qr[1])) ELSE x
RECURSIVE DecLen(_)
DecLen(x) == IF IsZero(x) THEN 0 ELSE 1 + DecLen(Mk(FALSE, DivSmallM(x.m, 10)[1]))
\* number of significant decimal digits of the exact expansion of A * r^e; 1000 = infinite expansion
SigDigits(A, r, e) ==
    IF e >= 0 THEN DecLen(StripZeros(Mul(A, PowSmall(r, e))))
    ELSE IF r = 2 THEN DecLen(StripZeros(Mul(A, PowSmall(5, -e))))
    ELSE IF r = 8 THEN DecLen(StripZeros(Mul(A, PowSmall(5, -3 * e))))
    ELSE IF r = 10 THEN DecLen(StripZeros(A))
    ELSE 1000

\* v = raw * r^e; returns a diagnosis.  mustBeExactIfShort: the text is shorter than the buffer, so nothing but the 18-digit
\* limit can excuse a truncated expansion.  (A text that fills the buffer may be a truncation forced by the buffer: the static
\* capacity itself is too small for the exact expansion of e.g. scaled_integer<int32_t, power<-5, 8>>{-1.414215087890625}.)
ScaledTextDiag(t, raw, r, e, mustBeExactIfShort) ==
    LET p == ParseDecimal(t)
        A == Abs(raw)
        lhs == Mul(Mul(p.mant, PowSmall(10, Pos(p.q))), PowSmall(r, Pos(-e)))       \* text magnitude, scaled
        rhs == Mul(Mul(A, PowSmall(r, Pos(e))), PowSmall(10, Pos(-p.q)))            \* true magnitude, scaled
        unit == Mul(PowSmall(10, Pos(p.q)), PowSmall(r, Pos(-e)))                   \* one unit of the last printed digit
    IN IF ~p.ok THEN "not_a_decimal"
       ELSE IF IsZero(raw) THEN (IF IsZero(p.mant) /\ ~p.neg THEN "ok" ELSE "text_not_value")
       ELSE IF p.neg # raw.n THEN "wrong_sign"
       ELSE IF Gt(lhs, rhs) THEN "text_exceeds_value"
       \* |v| - text < one unit of the last printed digit + the 64-bit significand limit: the rescaling loses up
       \* to one unit of a ~10^18 significand per remaining exponent step, so the limit is (|e|+2) * 10^-18 * |v|
       ELSE IF ~Lt(Mul(Sub(Sub(rhs, lhs), unit), PowSmall(10, 18)), MulSmall(rhs, (IF e < 0 THEN -e ELSE e) + 2)) THEN "text_too_small"
       ELSE IF mustBeExactIfShort /\ lhs # rhs /\ SigDigits(A, r, e) <= 18 THEN "inexact_though_short"
       ELSE "ok"

IsScaledT(t) == t.k = "scaled"
TextRadix(t) == IF RadixOf(t) = 0 THEN 2 ELSE RadixOf(t)

\* one to_chars call: judged for C13 (buffer) and, when it succeeded, for C14 (text); the class tells which
\* the most negative value of a built-in integer, or of a wide_integer's declared digits (-2^digits)
MostNegativeOf(t, v) ==
    ~IsScaledT(t) /\ \/ (InnerT(t).k = "int" /\ InnerT(t).s = 1 /\ v = TMin(AsIntT(InnerT(t))))
                     \/ (t.k = "wide" /\ InnerT(t).s = 1 /\ v = Neg(Pow2(t.digits)))
\* number of characters of the canonical numeral of a in the given base (sign included)
RECURSIVE NumeralDigits(_, _, _, _)
NumeralDigits(mag, base, pw, k) == IF Gt(pw, mag) THEN k ELSE NumeralDigits(mag, base, MulSmall(pw, base), k + 1)
NumeralLen(a, base) == (IF a.n THEN 1 ELSE 0) + (IF IsZero(a) THEN 1 ELSE NumeralDigits(Abs(a), base, One, 0))
JudgeTc(e, i) ==
    LET bd0 == BufferDiag(e)
        v == J(e.v)
        \* an integer whose numeral fits the buffer must not be refused (std::to_chars semantics; C14 presumes that an
        \* adequate buffer yields the text, and the fixed-capacity variants rely on it)
        bd == IF bd0 = "ok" /\ e.ec # 0 /\ ~IsScaledT(i.lt) /\ NumeralLen(v, i.base) <= e.cap THEN "refused_though_it_fits" ELSE bd0
        td == IF bd # "ok" \/ e.ec # 0 THEN "ok"
              ELSE IF IsScaledT(i.lt) THEN ScaledTextDiag(e.txt, v, TextRadix(i.lt), ExpOf(i.lt), Len(e.txt) < e.cap)
              ELSE IF IntTextOK(e.txt, v, i.base) THEN "ok" ELSE "text_not_value"
        mostNeg == MostNegativeOf(i.lt, v)
        cls == <<"Tc", IF IsScaledT(i.lt) THEN "scaled" ELSE "int", i.base, IF mostNeg THEN "most_negative" ELSE IF v.n THEN "neg" ELSE "pos",
                 IF e.cap = 0 THEN "cap0" ELSE IF e.cap < i.capacity THEN "short" ELSE "full">>
    IN [d |-> IF bd # "ok" THEN bd ELSE td, nt |-> e.cap < i.capacity \/ v.n, cls |-> cls]

\* fixed-capacity variants: always succeed and print the same text as to_chars with the static capacity
JudgeTcStatic(e, i) ==
    LET v == J(e.v)
        mostNeg == MostNegativeOf(i.lt, v)
        cls == <<"TcStatic", IF IsScaledT(i.lt) THEN "scaled" ELSE "int", i.base, IF mostNeg THEN "most_negative" ELSE IF v.n THEN "neg" ELSE "pos">>
        td == IF IsScaledT(i.lt) THEN ScaledTextDiag(e.txt, v, TextRadix(i.lt), ExpOf(i.lt), Len(e.txt) < i.capacity)
              ELSE IF IntTextOK(e.txt, v, i.base) THEN "ok" ELSE "text_not_value"
    IN [d |-> (IF TxUb(e.out) THEN "ub" ELSE IF e.out = "timeout" THEN "timeout" ELSE IF e.out # "ok" THEN "unreachable"
               ELSE IF e.ec # 0 \/ Len(e.static) = 0 THEN "static_capacity_too_small"
               ELSE IF e.static # e.txt \/ e.string # e.txt \/ e.stream # e.txt THEN "variants_differ"
               ELSE td),
        nt |-> TRUE, cls |-> cls]
=============================================================================
