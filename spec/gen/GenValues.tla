------------------------------ MODULE GenValues ------------------------------
(* Stimuli come from the specification: the boundary operand sets for every
   integer width are defined here and written by TLC; the recorder reads them.
   Line format: w s tier <<sign, limbs...>>   (tier 0 = small core set for binary
   operand pairs in the quick tier; 1 = larger core; 2 = full set, one value
   triple per bit position). *)
EXTENDS BigInt, TLC, IOUtils, CSV, FiniteSets

Out == IOEnv.OUT
Widths == {8, 16, 32, 64, 128}

Core0(w, s) ==
    LET mx == MaxOf(w, s)  mn == MinOf(w, s)  h == w \div 2
        pats == {Mk(FALSE, [j \in 1..((w + 14) \div 15) |-> IF j % 2 = 1 THEN 21845 ELSE 10922])}
        base == {Zero, One, FromInt(2), FromInt(-1), FromInt(-2),
                 mx, Sub(mx, One), mn, Add(mn, One),
                 Pow2(h), Sub(Pow2(h), One), Add(Pow2(h), One), Neg(Pow2(h)), Neg(Add(Pow2(h), One)),
                 Pow2(w - 2), Neg(Pow2(w - 2)),
                 ISqrt(mx), Add(ISqrt(mx), One), Neg(Add(ISqrt(mx), One))}
    IN {x \in base \cup {Wrap(p, w, s) : p \in pats} : InRange(x, w, s)}

Core(w, s) ==
    LET mx == MaxOf(w, s)  mn == MinOf(w, s)  h == w \div 2
        pats == {Mk(FALSE, [j \in 1..((w + 14) \div 15) |-> IF j % 2 = 1 THEN 21845 ELSE 10922]),   \* 0x5555..
                 Mk(FALSE, [j \in 1..((w + 14) \div 15) |-> IF j % 2 = 1 THEN 10922 ELSE 21845])}   \* 0xAAAA..
        base == {Zero, One, FromInt(2), FromInt(3), FromInt(-1), FromInt(-2), FromInt(-3),
                 mx, Sub(mx, One), Sub(mx, FromInt(2)), mn, Add(mn, One), Add(mn, FromInt(2)),
                 Pow2(h), Sub(Pow2(h), One), Add(Pow2(h), One), Neg(Pow2(h)), Neg(Add(Pow2(h), One)),
                 Pow2(w - 2), Sub(Pow2(w - 2), One), Add(Pow2(w - 2), One), Neg(Pow2(w - 2)),
                 ISqrt(mx), Add(ISqrt(mx), One), Neg(ISqrt(mx)), Neg(Add(ISqrt(mx), One))}
        pows == UNION {{Pow2(k), Sub(Pow2(k), One), Add(Pow2(k), One), Neg(Pow2(k)), Neg(Add(Pow2(k), One))}
                       : k \in {kk \in {7, 8, 15, 16, 31, 32, 63, 64, 127} : kk < w}}
    IN {x \in base \cup pows \cup {Wrap(p, w, s) : p \in pats} : InRange(x, w, s)}

Full(w, s) ==
    {x \in UNION {{Pow2(k), Sub(Pow2(k), One), Add(Pow2(k), One), Neg(Pow2(k)), Neg(Sub(Pow2(k), One)), Neg(Add(Pow2(k), One))}
                  : k \in 1..w} : InRange(x, w, s)}

Enc(x) == <<IF x.n THEN 1 ELSE 0>> \o x.m

VARIABLE done
Init == done = FALSE
Next == /\ ~done
        /\ \A w \in Widths, s \in {0, 1} :
              /\ \A x \in Core0(w, s = 1) : CSVWrite("%1$s %2$s 0 %3$s", <<w, s, Enc(x)>>, Out)
              /\ \A x \in Core(w, s = 1) \ Core0(w, s = 1) : CSVWrite("%1$s %2$s 1 %3$s", <<w, s, Enc(x)>>, Out)
              /\ \A x \in Full(w, s = 1) \ (Core(w, s = 1) \cup Core0(w, s = 1)) :
                     CSVWrite("%1$s %2$s 2 %3$s", <<w, s, Enc(x)>>, Out)
        /\ done' = TRUE
Spec == Init /\ [][Next]_done
=============================================================================
