SPECIFICATION Spec
CONSTANT NRegs = 4
CONSTANT Depth = 7
CONSTANT NValues = 24
INVARIANT Emit
CHECK_DEADLOCK FALSE
