SPECIFICATION Spec
CONSTANT NRegs = 4
CONSTANT Depth = 7
CONSTANT NValues = 41
INVARIANT Emit
CHECK_DEADLOCK FALSE
