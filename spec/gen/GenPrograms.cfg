SPECIFICATION Spec
CONSTANT NRegs = 4
CONSTANT Depth = 7
CONSTANT NValues = 36
INVARIANT Emit
CHECK_DEADLOCK FALSE
