------------------------------ MODULE GenPrograms ------------------------------
(* Stimuli for C11: short programs over a register file of typed static_numbers, produced by TLC in simulation
   mode from the same action alphabet as CnlMachine (Load, Step).  A program is a sequence of
       [k |-> "load", r, vi]                    register r := value number vi of its type's value table
       [k |-> "bin", op, a, b, d]               register d := register a  op  register b   (converted to d's type)
       [k |-> "cas", op, a, d]                  register d op= register a                (compound assignment)
       [k |-> "neg", a, d]                      register d := - register a
       [k |-> "mov", a, d]                      register d := register a                 (plain assignment / conversion)
       [k |-> "expr", op, a, b, d]              register d := a two-operator expression of registers a and b (op in CompositeOps)
       [k |-> "cmp", a, b]                      the six comparisons of two registers      (no state change)
       [k |-> "fromint", r, vi]                 register r := its type constructed from built-in integer number vi
       [k |-> "toflt", a]                       register a converted to double            (no state change)
       [k |-> "fromflt", r, vi]                 register r := its type constructed from double number vi
       [k |-> "incdec", op, d]                  ++d, d++, --d, d--  (op in preinc / postinc / predec / postdec)
   Every register is loaded before it is read.  Each simulated behaviour of full depth is written as one JSON
   line; the C++ interpreter executes it on real objects and logs the abstract state after every step. *)
EXTENDS Integers, Sequences, FiniteSets, TLC, CSV, Json, IOUtils

CONSTANTS NRegs, Depth, NValues
Out == IOEnv.OUT
Ops == {"add", "sub", "mul", "div", "mod"}
VARIABLES hist, loaded
Init == hist = <<>> /\ loaded = {}
\* value numbers offered at the current step: a window of four that moves with the step number and the program so far,
\* so that the value-carrying actions do not crowd out the others when TLC picks a successor uniformly
Offered == {(5 * Len(hist) + 7 * Cardinality(loaded) + j * 11) % NValues : j \in 0..3}
Load == \E r \in 1..NRegs, vi \in Offered :
            /\ hist' = Append(hist, [k |-> "load", r |-> r, vi |-> vi])
            /\ loaded' = loaded \cup {r}
Step == \E op \in Ops, a \in loaded, b \in loaded, d \in 1..NRegs :
            /\ hist' = Append(hist, [k |-> "bin", op |-> op, a |-> a, b |-> b, d |-> d])
            /\ loaded' = loaded \cup {d}
Cas == \E op \in Ops, a \in loaded, d \in loaded :
            /\ hist' = Append(hist, [k |-> "cas", op |-> op, a |-> a, b |-> d, d |-> d])
            /\ UNCHANGED loaded
NegStep == \E a \in loaded, d \in 1..NRegs :
            /\ hist' = Append(hist, [k |-> "neg", a |-> a, d |-> d])
            /\ loaded' = loaded \cup {d}
MovStep == \E a \in loaded, d \in 1..NRegs :
            /\ hist' = Append(hist, [k |-> "mov", a |-> a, d |-> d])
            /\ loaded' = loaded \cup {d}
CompositeOps == {"neg_add", "neg_sub", "neg_mul", "mul_add", "mul_sub", "add_mul", "sub_mul"}
ExprStep == \E op \in CompositeOps, a \in loaded, b \in loaded, d \in 1..NRegs :
            /\ hist' = Append(hist, [k |-> "expr", op |-> op, a |-> a, b |-> b, d |-> d])
            /\ loaded' = loaded \cup {d}
CmpStep == \E a \in loaded, b \in loaded :
            /\ hist' = Append(hist, [k |-> "cmp", a |-> a, b |-> b])
            /\ UNCHANGED loaded
FromInt == \E r \in 1..NRegs, vi \in Offered :
            /\ hist' = Append(hist, [k |-> "fromint", r |-> r, vi |-> vi])
            /\ loaded' = loaded \cup {r}
FromFlt == \E r \in 1..NRegs, vi \in Offered :
            /\ hist' = Append(hist, [k |-> "fromflt", r |-> r, vi |-> vi])
            /\ loaded' = loaded \cup {r}
IncDec == \E op \in {"preinc", "postinc", "predec", "postdec"}, d \in loaded :
            /\ hist' = Append(hist, [k |-> "incdec", op |-> op, d |-> d])
            /\ UNCHANGED loaded
ToFlt == \E a \in loaded :
            /\ hist' = Append(hist, [k |-> "toflt", a |-> a])
            /\ UNCHANGED loaded
Next == /\ Len(hist) < Depth
        /\ IF Len(hist) < 2 THEN Load
           ELSE (Load \/ Step \/ Step \/ Step \/ Cas \/ NegStep \/ MovStep \/ ExprStep \/ ExprStep \/ CmpStep \/ FromInt \/ FromFlt \/ ToFlt \/ IncDec)
Spec == Init /\ [][Next]_<<hist, loaded>>
Emit == Len(hist) = Depth => CSVWrite("%1$s", <<ToJson(hist)>>, Out)
=============================================================================
