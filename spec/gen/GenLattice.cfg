SPECIFICATION Spec
CONSTANT WINT = 32
CHECK_DEADLOCK FALSE
