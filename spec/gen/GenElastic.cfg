SPECIFICATION Spec
CONSTANT WINT = 32
CONSTANT StdWidths = {8, 16, 32, 64, 128}
CHECK_DEADLOCK FALSE
