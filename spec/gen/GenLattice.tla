------------------------------ MODULE GenLattice ------------------------------
(* The instantiation lattice of the scaled_integer family, enumerated by TLC from
   the admissibility rules of the specification (the static_assert / constexpr
   conditions under which cnl's alignment by scale<> / power_value<> is
   well-formed).  One CSV row per admissible pair:
        lw ls le rw rs re radix
   tools/gen_insts.py turns rows into template instantiations (a fixed core plus a
   VERIF_SEED-chosen sample in the quick tier, every row in the thorough tier). *)
EXTENDS CxxInt, TLC, IOUtils, CSV

Out == IOEnv.OUT
Reps == {IntT(w, s) : w \in {8, 16, 32, 64}, s \in {0, 1}}
Exps2 == {-70, -65, -33, -32, -31, -17, -16, -15, -8, -7, -1, 0, 1, 7, 8, 15, 16, 31, 32, 63, 70}
Exps10 == {-70, -68, -9, -4, -3, -2, -1, 0, 1, 2, 3, 5, 66, 70}

AbsI(x) == IF x < 0 THEN -x ELSE x
\* aligning by `shift` digits multiplies/divides by radix^shift in the promoted operand type
ShiftOK(t, shift, radix) ==
    LET p == Promote(t) IN
    IF radix = 2 THEN shift < TDigits(p)
    ELSE Le(PowSmall(radix, shift), Pow2(TDigits(p) - 1))
Admissible(lt, le, rt, re, radix) ==
    LET sh == AbsI(le - re) IN sh = 0 \/ (ShiftOK(lt, sh, radix) /\ ShiftOK(rt, sh, radix))

VARIABLE done
Init == done = FALSE
Next == /\ ~done
        /\ \A lt \in Reps, rt \in Reps :
             /\ \A le \in Exps2, re \in Exps2 :
                   Admissible(lt, le, rt, re, 2) =>
                      CSVWrite("%1$s %2$s %3$s %4$s %5$s %6$s 2", <<lt.w, lt.s, le, rt.w, rt.s, re>>, Out)
             /\ \A le \in Exps10, re \in Exps10 :
                   Admissible(lt, le, rt, re, 10) =>
                      CSVWrite("%1$s %2$s %3$s %4$s %5$s %6$s 10", <<lt.w, lt.s, le, rt.w, rt.s, re>>, Out)
        /\ done' = TRUE
Spec == Init /\ [][Next]_done
=============================================================================
