------------------------------ MODULE GenElastic ------------------------------
(* The instantiation lattice of the elastic_integer family, enumerated by TLC:
   every (LhsDigits, LhsSigned, LhsNarrowestWidth, RhsDigits, RhsSigned,
   RhsNarrowestWidth) for which every binary operator's result (SemElastic's
   PolicyDigits) still has built-in storage (<= 127 signed / 128 unsigned digits).
   Row: ld ls lnw rd rs rnw *)
EXTENDS SemElastic, TLC, IOUtils, CSV

Out == IOEnv.OUT
Digs == {1, 2, 3, 7, 8, 9, 15, 16, 17, 31, 32, 33, 40, 62, 63, 64}
NWs == {8, 32, 64}
Ops == {"add", "sub", "mul", "div", "mod"}
Fits(dg, sgn) == dg <= (IF sgn THEN 127 ELSE 128)
Admissible(ld, ls, rd, rs) ==
    \A op \in Ops : Fits(PolicyDigits(op, ld, ls, rd, rs), PolicySigned(op, ls, rs))

VARIABLE done
Init == done = FALSE
Next == /\ ~done
        /\ \A ld \in Digs, rd \in Digs, ls \in BOOLEAN, rs \in BOOLEAN, lnw \in NWs, rnw \in NWs :
              Admissible(ld, ls, rd, rs) =>
                 CSVWrite("%1$s %2$s %3$s %4$s %5$s %6$s", <<ld, IF ls THEN 1 ELSE 0, lnw, rd, IF rs THEN 1 ELSE 0, rnw>>, Out)
        /\ done' = TRUE
Spec == Init /\ [][Next]_done
=============================================================================
